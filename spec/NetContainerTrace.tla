------------------------- MODULE NetContainerTrace -------------------------
(* Trace validation of recorded executions of the PrimAITE network container and node wiring against              *)
(* NetContainer.tla (batch idiom of LinkTrace.tla).                                                                 *)
(*                                                                                                                  *)
(* A trace is [cfg |-> [kind, home, init], ev |-> <<event, ...>>]: kind / home are the configuration, init the      *)
(* projected state of the real objects where the trace starts (a trace is a segment of a run; a run is cut into     *)
(* segments so that a divergence costs the rest of its segment only).  An event is                                  *)
(*   [ev |-> "AddNode"|"RemoveNode"|"Connect"|"RemoveLink"|"DisconnectLink"|"LinkSelf"|"Enable"|"Disable"|          *)
(*           "ConnectNic"|"DisconnectNic"|"Power"|"Lookup"|"Request"|"Observe"|"Tick",                              *)
(*    n (node / hostname), i, j (interfaces), l (link number), via ("api"|"request"), flag (the boolean the call    *)
(*    reported: enable / disable result, request success, node found, request reached; Power: ON afterwards),       *)
(*    res ("none" | "link" | "raised:<exception>"), p (port number a connected interface got),                      *)
(*    st |-> the state read from the real objects after the call returned:                                          *)
(*      on, present, routes, gv (sequences of hostnames), ge (sequence of <<h1, h2>>), nextL,                       *)
(*      links (sequence of [id, a, b, up]; up = "T" | "F" | "X" (is_up raised)),                                    *)
(*      il, en, att, port, rt (interface -> value; port 99 = listed under more than one number),                    *)
(*      par (nodes whose parent is the network), found (hostnames get_node_by_hostname finds),                      *)
(*      ds ("ok" | "raised:..."), dsn (hostnames describe_state lists), dsl (sequence of [ha, pa, hb, pb] it        *)
(*      lists), dslc (how many), typed (kind -> hostnames of the typed list), exth / extn (kinds found in           *)
(*      extended_hostnodes / extended_networknodes)]                                                                *)
(* unused fields carry "" / 0 / FALSE.                                                                              *)
EXTENDS NetContainer, TLCExt, Json, IOUtils

Traces == JsonDeserialize(IOEnv.TRACE_FILE)

VARIABLES tid, l
tvars == <<vars, tid, l>>

T == Traces[tid].ev
Cfg == Traces[tid].cfg

SetOf(s) == {s[k] : k \in 1..Len(s)}
BagOfPairs(s) ==
    LET ps == {{s[k][1], s[k][2]} : k \in 1..Len(s)} IN
    [p \in ps |-> Cardinality({k \in 1..Len(s) : {s[k][1], s[k][2]} = p})]
LinksOfLog(s) ==
    LET ids == {s[k].id : k \in 1..Len(s)} IN
    [x \in ids |-> LET r == s[CHOOSE k \in 1..Len(s) : s[k].id = x] IN [a |-> r.a, b |-> r.b]]
\* the projected state of a log record as a state record of the module (over interface set I)
StateOf(s, I) ==
    [on |-> SetOf(s.on), present |-> SetOf(s.present), routes |-> SetOf(s.routes), gV |-> SetOf(s.gv),
     gE |-> BagOfPairs(s.ge), links |-> LinksOfLog(s.links), nextL |-> s.nextL,
     ilink |-> [x \in I |-> s.il[x]], en |-> [x \in I |-> s.en[x]], att |-> [x \in I |-> s.att[x]],
     port |-> [x \in I |-> s.port[x]], rt |-> [x \in I |-> s.rt[x]]]

Names == {"AddNode", "RemoveNode", "Connect", "RemoveLink", "DisconnectLink", "LinkSelf", "Enable", "Disable",
          "ConnectNic", "DisconnectNic", "Power", "Lookup", "Request", "Observe", "Tick"}
UsesN == {"AddNode", "RemoveNode", "Power"}
UsesH == {"Lookup", "Request"}
UsesI == {"Connect", "DisconnectLink", "LinkSelf", "Enable", "Disable", "ConnectNic", "DisconnectNic"}

\* the event names objects the configuration knows, its unused fields carry the defaults, its state record is complete
WellFormed(e) ==
    /\ e.ev \in Names
    /\ IF e.ev \in UsesN THEN e.n \in Nodes ELSE (e.ev \in UsesH \/ e.n = "")
    /\ IF e.ev \in UsesI THEN e.i \in Ifaces ELSE e.i = ""
    /\ IF e.ev = "Connect" THEN e.j \in Ifaces /\ att[e.i] /\ att[e.j] ELSE e.j = ""
    /\ IF e.ev = "RemoveLink" THEN e.l \in DOMAIN links ELSE e.l = 0
    /\ IF e.ev \in {"Enable", "Disable"} THEN e.via \in {"api", "request"} ELSE e.via = ""
    /\ (e.ev \notin {"Enable", "Disable", "Power", "Lookup", "Request"}) => e.flag = FALSE
    /\ IF e.ev = "ConnectNic" THEN TRUE ELSE e.p = 0
    /\ DOMAIN e.st.il = Ifaces /\ DOMAIN e.st.en = Ifaces /\ DOMAIN e.st.att = Ifaces
    /\ DOMAIN e.st.port = Ifaces /\ DOMAIN e.st.rt = Ifaces
    /\ DOMAIN e.st.typed = TypedKinds
    /\ SetOf(e.st.par) \subseteq Nodes
    /\ SetOf(e.st.on) \cup SetOf(e.st.present) \cup SetOf(e.st.routes) \cup SetOf(e.st.gv) \subseteq Nodes
    /\ \A k \in 1..Len(e.st.links) : {e.st.links[k].a, e.st.links[k].b} \subseteq Ifaces \cup {NoIf}
    /\ \A k1, k2 \in 1..Len(e.st.links) : e.st.links[k1].id = e.st.links[k2].id => k1 = k2

\* the post-state the contract demands
D(e) ==
    CASE e.ev = "AddNode"        -> AddNodePost(e.n)
      [] e.ev = "RemoveNode"     -> RemoveNodePost(e.n)
      [] e.ev = "Connect"        -> ConnectPost(e.i, e.j)
      [] e.ev = "RemoveLink"     -> RemoveLinkPost(e.l)
      [] e.ev = "DisconnectLink" -> DisconnectLinkPost(e.i)
      [] e.ev = "Enable"         -> EnablePost(e.i, e.via)
      [] e.ev = "Disable"        -> DisablePost(e.i, e.via)
      [] e.ev = "ConnectNic"     -> ConnectNicPost(e.i, e.p)
      [] e.ev = "DisconnectNic"  -> DisconnectNicPost(e.i)
      [] e.ev = "Power"          -> PowerPost(e.n, e.flag)
      [] OTHER                   -> Cur

Outcome(e) ==
    CASE e.ev = "Enable"         -> e.flag = EnableOk(e.i, e.via) /\ e.res = "none"
      [] e.ev = "Disable"        -> e.flag = DisableOk(e.i, e.via) /\ e.res = "none"
      [] e.ev = "LinkSelf"       -> e.res = "raised:ValueError"
      [] e.ev = "ConnectNic"     -> e.res = IF att[e.i] THEN "raised:NetworkError" ELSE "none"
      [] e.ev = "DisconnectNic"  -> e.res = IF att[e.i] THEN "none" ELSE "raised:NetworkError"
      [] e.ev = "Connect"        -> TRUE
      [] OTHER                   -> e.res = "none"

LogUp(s, r) == IF r.a # NoIf /\ r.b # NoIf /\ s.en[r.a] /\ s.en[r.b] THEN "T" ELSE "F"
\* the keys describe_state has to list: the links both of whose ends are interfaces of a node (the port number of an
\* interface that was taken off its node is not defined)
LogKeys(s) == {[ha |-> home[r.a], pa |-> s.port[r.a], hb |-> home[r.b], pb |-> s.port[r.b]] :
                   r \in {s.links[k] : k \in {x \in 1..Len(s.links) :
                              /\ s.links[x].a # NoIf /\ s.links[x].b # NoIf
                              /\ s.att[s.links[x].a] /\ s.att[s.links[x].b]}}}

\* Clauses about what the container SHOWS (describe_state, typed lists, lookups) are judged where the run looks at
\* it: at Observe, and - but for the extended lists - at the calls that change nodes or links.
Structural == {"AddNode", "RemoveNode", "Connect", "RemoveLink", "DisconnectLink"}
Shows(e) == e.ev = "Observe" \/ e.ev \in Structural
\* Clauses about the logged state alone are judged in their inductive form: what this call broke (an interface that
\* was already enabled without node / power / link, a link that had already lost an end, is the earlier call's doing).
OkIf(o, a, ilk, x) == a[x] /\ home[x] \in o /\ ilk[x] # 0
WasHalf(id) == id \in DOMAIN links /\ ~Full(id)
HadHalf == \E id \in DOMAIN links : ~Full(id)

\* named clauses: predicates of (current spec state, event)
Clauses(e) ==
    IF ~WellFormed(e) THEN [WellFormedEvent |-> FALSE]
    ELSE
    LET d == D(e)
        s == e.st
        g == StateOf(s, Ifaces) IN
    [ WellFormedEvent |-> TRUE,
      OnAsPowered |-> g.on = d.on,
      NodesExact |-> g.present = d.present,
      ParentFollowsNodes |-> SetOf(s.par) = d.present,
      RoutesFollowNodes |-> g.routes = d.routes,
      GraphVerticesFollowNodes |-> g.gV = d.gV,
      LookupFindsExactlyPresent |-> /\ Shows(e) => SetOf(s.found) = g.present
                                    /\ e.ev = "Lookup" => e.flag = LookupFinds(e.n),
      RequestReachesExactlyPresent |-> e.ev = "Request" => e.flag = RequestReaches(e.n),
      ConnectSaysSo |-> e.ev = "Connect" =>
                            IF CanLink(e.i, e.j) THEN e.res = "link" ELSE e.res \in {"none", "raised:RuntimeError"},
      LinksExact |-> g.links = d.links /\ g.nextL = d.nextL,
      NoDanglingLinkRef |-> g.ilink = d.ilink,
      GraphEdgesFollowLinks |-> g.gE = d.gE,
      EnabledOnlyIfOnAndLinked |-> \A x \in Ifaces : (s.en[x] /\ ~OkIf(g.on, s.att, s.il, x)) => (en[x] /\ ~OkIf(on, att, ilink, x)),
      EnabledAsDesigned |-> g.en = d.en,
      LinkUpIffBothEnabled |-> \A k \in 1..Len(s.links) :
                                   s.links[k].up = LogUp(s, s.links[k]) \/ (s.links[k].up = "X" /\ WasHalf(s.links[k].id)),
      DescribeListsExactly |-> Shows(e) =>
                                   IF s.ds = "ok"
                                   THEN /\ SetOf(s.dsn) = g.present
                                        /\ LogKeys(s) \subseteq SetOf(s.dsl)
                                        /\ s.dslc >= Cardinality(LogKeys(s)) /\ s.dslc <= Len(s.links)
                                   ELSE HadHalf,
      TypedListsExact |-> Shows(e) => \A k \in TypedKinds : SetOf(s.typed[k]) = {n \in g.present : kind[n] = k},
      ExtendedListsByBase |-> e.ev = "Observe" => (SetOf(s.exth) \cap NetKinds = {} /\ SetOf(s.extn) \cap HostKinds = {}),
      ReportsOutcome |-> Outcome(e),
      NicTableExact |-> g.att = d.att /\ g.port = d.port /\ g.rt = d.rt,
      FreshPort |-> (e.ev = "ConnectNic" /\ ~att[e.i]) => FreshPortOk(e.i, e.p)
    ]
Failing(e) == LET cl == Clauses(e) IN {c \in DOMAIN cl : ~cl[c]}

Step(e) == Apply(D(e))

TraceInit ==
    /\ tid \in 1..Len(Traces)
    /\ l = 1
    /\ NetInit(Cfg.kind, Cfg.home, StateOf(Cfg.init, DOMAIN Cfg.home))

TraceNext ==
    /\ l <= Len(T)
    /\ Failing(T[l]) = {}
    /\ Step(T[l])
    /\ l' = l + 1
    /\ UNCHANGED tid

TraceSpec == TraceInit /\ [][TraceNext]_tvars

Seen == TLCGet(tid)
Record ==
    IF l > Seen.pos
    THEN TLCSet(tid, [pos |-> l,
                      fail |-> IF l <= Len(T) THEN Failing(T[l]) ELSE {},
                      st |-> [present |-> present, on |-> on, nlinks |-> Cardinality(DOMAIN links), nextL |-> nextL]])
    ELSE TRUE
InitRegs == \A i \in 1..Len(Traces) : TLCSet(i, [pos |-> 0, fail |-> {}, st |-> <<>>])
ASSUME InitRegs

Report ==
    \A i \in 1..Len(Traces) :
        LET r == TLCGet(i) IN
        /\ PrintT(<<"TRACE", i, r.pos, Len(Traces[i].ev)>>)
        /\ (r.pos = Len(Traces[i].ev) + 1 \/ PrintT(<<"STUCK", i, r.pos, r.fail, r.st>>))
=============================================================================
