------------------------------- MODULE Agents -------------------------------
(***************************************************************************)
(* Scripted green / red agents, one agent over one episode.  Property C19. *)
(*                                                                         *)
(* One step of the game = one action of the agent.  `t' counts completed   *)
(* steps, i.e. it is the timestep handed to the agent for the step about   *)
(* to be taken (the first step of an episode has timestep 0).              *)
(*                                                                         *)
(* kind = "periodic" : periodic-agent / red-database-corrupting-agent      *)
(*        Act(tt, n, a, ap) | Idle(tt)                                     *)
(* kind = "prob"     : probabilistic-agent          Choose(i)              *)
(* kind = "tap"      : threat-actor agents TAP001 / TAP003                 *)
(*        TapAct(tt, n, s1) | TapIdle(tt, s1)                              *)
(*                                                                         *)
(* The settings are *variables that never change* (BUILDING.md 1) so that  *)
(* one TLC run sweeps settings and one trace batch mixes agents.           *)
(*                                                                         *)
(* The module is written at the level of the property STATEMENT, not of    *)
(* the code: there is no "next execution step" that the agent draws; what  *)
(* the statement fixes is the WINDOW in which the next action may / must   *)
(* happen.  `next' is that window [lo, hi]:                                *)
(*   before the first action  [start-startVar-1, start+startVar]           *)
(*   after an action at tt    [tt+freq-var,      tt+freq+var]              *)
(* An action outside the window is not allowed; doing nothing on the last  *)
(* step of the window is not allowed unless the agent is prevented from    *)
(* acting (maxExec reached).  Both `t = next' and `t >= next' schedulers   *)
(* of the code are inside this latitude.                                   *)
(*                                                                         *)
(* Latitude of the start (stated, DESIGN 5.1): the documentation says      *)
(* "the timestep where the agent begins performing actions" without saying *)
(* whether steps are counted from 0 (as game.step_counter does) or from 1. *)
(* "Step s" counted from 1 is timestep s-1, so the start window is widened *)
(* by exactly one step at its lower end.  Gaps do not depend on numbering. *)
(***************************************************************************)
EXTENDS Integers, Sequences, FiniteSets

VARIABLES
    \* ---- settings (never change)
    kind,
    start, startVar,   \* start step and its variance (tap: startVar = var, as TAP agents have one variance)
    freq, var,         \* frequency and its variance
    maxExec,           \* periodic: maximum number of executions
    nodes,             \* the configured start nodes (set of names); tap: plus the configured C2 server
    action, app,       \* periodic: the action the agent is configured to use and its target application
    p,                 \* prob: per-mille probability of action-map entry i is p[i+1]
    nStages,           \* tap: number of stages of the kill chain (stages are 1..nStages)
    repeatChain,       \* tap: repeat_kill_chain
    repeatStages,      \* tap: repeat_kill_chain_stages
    \* ---- state
    t,                 \* steps completed
    execs,             \* actions taken (anything other than do-nothing)
    prev, last,        \* timestep of the previous / latest action, -1 if none (history)
    next,              \* [lo, hi]: window for the next action (see above)
    node,              \* the start node used so far in this episode, "" before the first action
    stage,             \* tap: kill-chain position
    termRun            \* tap: consecutive steps ended in a terminal stage

settings == <<kind, start, startVar, freq, var, maxExec, nodes, action, app, p, nStages, repeatChain, repeatStages>>
state    == <<t, execs, prev, last, next, node, stage, termRun>>
avars    == <<settings, state>>

\* kill-chain special values (the integer values of the code's enumerations; stages are 1..nStages)
NotStarted == 100
Succeeded  == 200
Failed     == 300
Terminal   == {Succeeded, Failed}
StageVals  == (1..nStages) \cup {NotStarted, Succeeded, Failed}

StartWindow == [lo |-> start - startVar - 1, hi |-> start + startVar]
NextWindow(tt) == [lo |-> tt + freq - var, hi |-> tt + freq + var]

AgentInit(k, s, sv, f, v, mx, ns, a, ap, pr, n, rc, rs) ==
    /\ kind = k /\ start = s /\ startVar = sv /\ freq = f /\ var = v /\ maxExec = mx
    /\ nodes = ns /\ action = a /\ app = ap /\ p = pr
    /\ nStages = n /\ repeatChain = rc /\ repeatStages = rs
    /\ t = 0 /\ execs = 0 /\ prev = -1 /\ last = -1
    /\ next = [lo |-> s - sv - 1, hi |-> s + sv]
    /\ node = ""
    /\ stage = NotStarted /\ termRun = 0

-----------------------------------------------------------------------------
(* Periodic agent: the clauses as predicates of (state, step).             *)

\* nothing before the configured start (within the start variance), no action closer to the
\* previous one than frequency - variance
NotBeforeWindow(tt) == tt >= next.lo
\* ... and none later than the end of the window
NotAfterWindow(tt) == tt <= next.hi
\* doing nothing is allowed while the window stays open after this step, or when no action is left
MayIdle(tt) == execs >= maxExec \/ tt < next.hi
WithinMaxExec == execs < maxExec
ConfiguredAction(a, ap) == a = action /\ ap = app
ConfiguredNode(n) == n \in nodes
NodeFixed(n) == node = "" \/ n = node

RecordAction(tt, n) ==
    /\ t' = t + 1
    /\ execs' = execs + 1
    /\ prev' = last
    /\ last' = tt
    /\ next' = NextWindow(tt)
    /\ node' = n

Act(tt, n, a, ap) ==
    /\ kind = "periodic"
    /\ tt = t
    /\ WithinMaxExec
    /\ NotBeforeWindow(tt) /\ NotAfterWindow(tt)
    /\ ConfiguredAction(a, ap)
    /\ ConfiguredNode(n) /\ NodeFixed(n)
    /\ RecordAction(tt, n)
    /\ UNCHANGED <<settings, stage, termRun>>

Idle(tt) ==
    /\ kind = "periodic"
    /\ tt = t
    /\ MayIdle(tt)
    /\ t' = t + 1
    /\ UNCHANGED <<settings, execs, prev, last, next, node, stage, termRun>>

-----------------------------------------------------------------------------
(* Probabilistic agent: an action-map entry given probability zero is      *)
(* never selected; only entries of the table are selected.                 *)

InTable(i) == i \in 0..(Len(p) - 1)
Positive(i) == InTable(i) => p[i + 1] > 0

Choose(i) ==
    /\ kind = "prob"
    /\ InTable(i) /\ Positive(i)
    /\ t' = t + 1
    /\ UNCHANGED <<settings, execs, prev, last, next, node, stage, termRun>>

-----------------------------------------------------------------------------
(* Threat-actor agent.  Between two consecutive samples the stage          *)
(*   stays | advances by exactly one (NotStarted -> 1, k -> k+1,           *)
(*   nStages -> Succeeded) | goes to a terminal value | returns to the     *)
(*   start - only when repeat_kill_chain says so.                          *)

Advance(s, s1) ==
    \/ s = NotStarted /\ s1 = 1
    \/ s \in 1..(nStages - 1) /\ s1 = s + 1
    \/ s = nStages /\ s1 = Succeeded

\* the chain is abandoned; (Succeeded -> Failed is admitted: the success was provisional until the
\*  response to the last action is known.)  Abandoning is what repeat_kill_chain_stages = FALSE means;
\*  with repeat_kill_chain_stages = TRUE a failed stage is retried.
Fail(s, s1) == s # Failed /\ s1 = Failed
FailAllowed == ~repeatStages

\* back to the start.  From a terminal value this is the restart proper; from a stage it is the end of
\* the chain and the restart in one step (the agent gives up - or finishes the last stage - and starts
\* again within the same turn), so it needs what both halves need.
Restart(s, s1) == s1 \in {NotStarted, 1} /\ s # s1 /\ s # NotStarted
RestartAllowed(s) == repeatChain /\ (s \in Terminal \/ s = nStages \/ FailAllowed)

StageMove(s, s1) ==
    \/ s1 = s
    \/ Advance(s, s1)
    \/ Fail(s, s1) /\ FailAllowed
    \/ Restart(s, s1) /\ RestartAllowed(s)

\* after concluding without repeat the agent only does nothing (and stays concluded)
Concluded == stage \in Terminal /\ ~repeatChain
\* with repeat the chain is restarted at the agent's next turn: at most freq + var steps end in a
\* terminal stage
TermRunAfter(s1) == IF s1 \in Terminal THEN termRun + 1 ELSE 0
RestartsInTime(s1) == repeatChain => TermRunAfter(s1) <= freq + var
\* timing of threat-actor agents: nothing (no action, no progress) before start - var (same numbering
\* latitude), actions at least freq - var apart.  (Their turns may be spent doing nothing - a stage
\* implemented by do-nothing, a failed trial - so there is no upper bound on the gap.)
TapNotBeforeStart(tt) == tt >= start - startVar - 1
TapGapAtLeast(tt) == last = -1 \/ tt - last >= freq - var

TapStage(tt, s1) ==
    /\ s1 \in StageVals
    /\ StageMove(stage, s1)
    /\ (s1 # stage => TapNotBeforeStart(tt))
    /\ (Concluded => s1 \in Terminal)
    /\ RestartsInTime(s1)
    /\ stage' = s1
    /\ termRun' = TermRunAfter(s1)

TapAct(tt, n, s1) ==
    /\ kind = "tap"
    /\ tt = t
    /\ ~Concluded
    /\ TapNotBeforeStart(tt) /\ TapGapAtLeast(tt)
    /\ ConfiguredNode(n)
    /\ TapStage(tt, s1)
    /\ t' = t + 1
    /\ last' = tt
    /\ UNCHANGED <<settings, execs, prev, next, node>>

TapIdle(tt, s1) ==
    /\ kind = "tap"
    /\ tt = t
    /\ TapStage(tt, s1)
    /\ t' = t + 1
    /\ UNCHANGED <<settings, execs, prev, last, next, node>>

-----------------------------------------------------------------------------
(* C19 clauses as state invariants over the history variables (checked by  *)
(* TLC on the exhaustive model; the trace specification evaluates the same *)
(* predicates as guards, AgentsTrace.tla).                                 *)

Timed == kind \in {"periodic", "tap"}
\* (every action's timestep is `last' in the state right after it, so an invariant over `last' speaks
\*  about every action)
NothingBeforeStart == (Timed /\ last # -1) => last >= start - startVar - 1
FirstActionInStartWindow ==
    kind = "periodic" =>
        /\ execs = 1 => last <= start + startVar
        /\ (execs = 0 /\ maxExec > 0) => t <= start + startVar
GapAtLeast == (kind = "periodic" /\ prev # -1) => last - prev >= freq - var
GapAtMost ==
    kind = "periodic" =>
        /\ prev # -1 => last - prev <= freq + var
        /\ (last # -1 /\ execs < maxExec) => t <= last + freq + var
ExecsBounded == kind = "periodic" => execs <= maxExec
NodeConfigured == node # "" => node \in nodes
StageInChain == stage \in StageVals
RestartBound == repeatChain => termRun <= freq + var
NeverActsWhenConcluded == (kind = "tap" /\ stage \in Terminal /\ ~repeatChain /\ last # -1) => last < t - termRun + 1

AgentInv ==
    /\ NothingBeforeStart /\ FirstActionInStartWindow /\ GapAtLeast /\ GapAtMost
    /\ ExecsBounded /\ NodeConfigured /\ StageInChain /\ RestartBound /\ NeverActsWhenConcluded
=============================================================================
