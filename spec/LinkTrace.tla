---------------------------- MODULE LinkTrace ----------------------------
(* Trace validation of recorded executions of primaite Link / AirSpace     *)
(* against Link.tla (batch idiom, DESIGN.md 4.4).                          *)
(*                                                                         *)
(* A trace is [cfg |-> [bw, wireless], ev |-> <<event, ...>>]; an event is *)
(*   [ev |-> "PreTick"|"Admit"|"Begin"|"End"|"SetEnd", size, ok, recv,     *)
(*    side, en, load, upA, upB]   (unused fields carry 0 / FALSE / "")     *)
(* `load', `upA', `upB' are the values read from the real objects after    *)
(* the call returned.                                                      *)
EXTENDS Link, TLC, TLCExt, Json, IOUtils

Traces == JsonDeserialize(IOEnv.TRACE_FILE)

VARIABLES tid, l
tvars == <<bw, wireless, upA, upB, carried, load, stack, tid, l>>

T == Traces[tid].ev
Cfg == Traces[tid].cfg

\* named clauses, all predicates of (current state, event): the guard of the step
Clauses(e) ==
    [ LoadWithinBandwidth |-> e.load <= bw,
      LoadsStartAtZero    |-> e.ev = "PreTick" => e.load = 0,
      NoAdmitUnlessUp     |-> (e.ev = "Admit" /\ e.ok) => Up,
      NoOverflowAdmitted  |-> (e.ev = "Admit" /\ e.ok /\ Up) => Committed + e.size <= bw,
      NoCrossUnlessUp     |-> e.ev = "Begin" => Up,
      CarriedWithinBandwidth |->
          (e.ev = "End" /\ e.recv /\ stack # <<>>) => carried + stack[Len(stack)] <= bw,
      EndsMatchObjects    |-> wireless \/ e.ev = "SetEnd" \/ (e.upA = upA /\ e.upB = upB)
    ]
Failing(e) == {c \in DOMAIN Clauses(e) : ~Clauses(e)[c]}

Step(e) ==
    CASE e.ev = "PreTick" -> PreTick(e.load)
      [] e.ev = "Admit"   -> Admit(e.size, e.ok, e.load)
      [] e.ev = "Begin"   -> Begin(e.size, e.load)
      [] e.ev = "End"     -> End(e.recv, e.load)
      [] e.ev = "SetEnd"  -> SetEnd(e.side, e.en, e.load) /\ upA' = e.upA /\ upB' = e.upB
      [] OTHER -> FALSE

TraceInit ==
    /\ tid \in 1..Len(Traces)
    /\ l = 1
    /\ LinkInit(Cfg.bw, Cfg.wireless, Cfg.upA, Cfg.upB)

TraceNext ==
    /\ l <= Len(T)
    /\ Failing(T[l]) = {}
    /\ Step(T[l])
    /\ l' = l + 1
    /\ UNCHANGED tid

TraceSpec == TraceInit /\ [][TraceNext]_tvars

\* progress bookkeeping in TLC registers (one per trace); -workers 1
Seen == TLCGet(tid)
Record ==
    IF l > Seen.pos
    THEN TLCSet(tid, [pos |-> l,
                      fail |-> IF l <= Len(T) THEN Failing(T[l]) ELSE {},
                      st |-> [bw |-> bw, up |-> Up, carried |-> carried, load |-> load, stack |-> stack]])
    ELSE TRUE
InitRegs == \A i \in 1..Len(Traces) : TLCSet(i, [pos |-> 0, fail |-> {}, st |-> <<>>])
ASSUME InitRegs

Report ==
    \A i \in 1..Len(Traces) :
        LET r == TLCGet(i) IN
        /\ PrintT(<<"TRACE", i, r.pos, Len(Traces[i].ev)>>)
        /\ (r.pos = Len(Traces[i].ev) + 1 \/ PrintT(<<"STUCK", i, r.pos, r.fail, r.st>>))
=============================================================================
