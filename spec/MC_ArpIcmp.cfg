SPECIFICATION Spec
CONSTANTS
  MaxStim = 2
  MaxPings = 2
  AsCoded = FALSE
  BadId = FALSE
  Pingers = {1, 3}
  Toggle = {2, 4, 5}
INVARIANT CacheEntriesTruthful
INVARIANT UpImpliesPower
INVARIANT OwedOnlyByOwner
INVARIANT AtMostNReplies
INVARIANT WireFromLive
INVARIANT PingTrueIffAllAnswered
INVARIANT UnreachableGivesFalse
INVARIANT EchoReplySameIdentifier
INVARIANT UnicastToResolvedMac
PROPERTY CacheOnlyByRx
VIEW View
CHECK_DEADLOCK FALSE
