SPECIFICATION Spec
CONSTANTS
  MaxStim = 2
  MaxPings = 2
  AsCoded = FALSE
  BadId = FALSE
  AnyPort = FALSE
  Layout = 1
  Pingers = {1, 3}
  Toggle = {2, 4, 5}
INVARIANT CacheEntriesTruthful
INVARIANT UpImpliesPower
INVARIANT OwedOnlyByOwner
INVARIANT AtMostNReplies
INVARIANT WireFromLive
INVARIANT PingTrueIffAllAnswered
INVARIANT UnreachableGivesFalse
INVARIANT EchoReplySameIdentifier
INVARIANT UnicastToResolvedMac
INVARIANT ArpReplyOnlyByOwner
PROPERTY CacheOnlyByRx
VIEW View
CHECK_DEADLOCK FALSE
