SPECIFICATION TraceSpec
CONSTANTS
  AddrBits = 30
CONSTRAINT Record
POSTCONDITION Report
CHECK_DEADLOCK FALSE
