---------------------------- MODULE MC_Software ----------------------------
(* Exhaustive model: one service, one application, a second application    *)
(* that is installed / uninstalled / re-installed; every interleaving of    *)
(* lifecycle requests, scan / fix / execute, install / uninstall, ticks,    *)
(* node power events and incoming payloads; all restart / install duration *)
(* pairs in 0..MaxDur; three port layouts (disjoint, app2 sharing the      *)
(* service's port, app2 listening on both other ports).  The model takes   *)
(* every alternative the specification allows (both ends of the timing     *)
(* window, both outcomes of the power latitude).                            *)
(* MC_Software.cfg: safety over all layouts; MC_SoftwareLive.cfg: liveness *)
(* of the timed completions (ports play no part in it: one layout).        *)
EXTENDS Software, TLC

CONSTANTS MaxDur, Layouts   \* Layouts \subseteq 1..3: which port layouts to sweep

\* flips on every step that may leave the state unchanged, so that refused
\* requests and payloads are real steps of the behaviours handed to the driver
VARIABLE tog
mvars == <<svars, tog>>

S == {"svc"}
A == {"app", "app2"}
N == S \cup A
AllPorts == {1, 2, 3}
PortMap == << ("svc" :> {1} @@ "app" :> {2} @@ "app2" :> {3}),
              ("svc" :> {1} @@ "app" :> {2} @@ "app2" :> {1}),
              ("svc" :> {1} @@ "app" :> {2} @@ "app2" :> {1, 2}) >>
PortMaps == {PortMap[i] : i \in Layouts}
Op0 == ("svc" :> "RUNNING" @@ "app" :> "RUNNING" @@ "app2" :> "ABSENT")

SvcVerbs == {"start", "stop", "pause", "resume", "restart", "disable", "enable", "scan", "fix"}
AppVerbs == {"close", "scan", "fix", "execute"}

Init ==
    /\ tog = FALSE
    /\ \E P \in PortMaps, rd \in 0..MaxDur, id \in 0..MaxDur :
          SoftwareInit(S, A, P, rd, id, TRUE, Op0)

With(n, s) == [op EXCEPT ![n] = s]

MReq(n, v) ==
    /\ IF Accepted(n, v)
       THEN \E s \in Targets(n, v) : Req(n, v, TRUE, With(n, s))
       ELSE Req(n, v, FALSE, op)
    /\ tog' = ~tog

MInstall(n) ==
    /\ IF nodeOn /\ op[n] = Absent
       THEN \E s \in InstallTargets : Install(n, TRUE, With(n, s))
       ELSE Install(n, FALSE, op)
    /\ tog' = ~tog

MUninstall(n) ==
    /\ IF nodeOn /\ op[n] # Absent
       THEN Uninstall(n, TRUE, With(n, Absent))
       ELSE Uninstall(n, FALSE, op)
    /\ tog' = ~tog

MTick ==
    /\ \E a \in TickTargets("svc"), b \in TickTargets("app"), c \in TickTargets("app2") :
          Tick("svc" :> a @@ "app" :> b @@ "app2" :> c)
    /\ UNCHANGED tog

MPower(k) ==
    /\ IF PowerAccepted(k)
       THEN LET T(n) == IF k = "startup" THEN OnTargets(n) ELSE OffTargets(n) IN
            \E a \in T("svc"), b \in T("app"), c \in T("app2") :
                Power(k, TRUE, "svc" :> a @@ "app" :> b @@ "app2" :> c)
       ELSE Power(k, FALSE, op)
    /\ tog' = ~tog

\* the design: every RUNNING piece of software owning / listening on p handles the payload
MPayload(p) ==
    /\ Payload(p, IF nodeOn THEN {n \in Running(op) : p \in portsOf[n]} ELSE {})
    /\ tog' = ~tog

Next ==
    \/ \E v \in SvcVerbs : MReq("svc", v)
    \/ \E n \in A, v \in AppVerbs : MReq(n, v)
    \/ \E n \in A : MInstall(n)
    \/ \E n \in A : MUninstall(n)
    \/ MTick
    \/ \E k \in {"shutdown", "startup"} : MPower(k)
    \/ \E p \in AllPorts : MPayload(p)

Spec == Init /\ [][Next]_mvars /\ WF_mvars(MTick)

\* every started timed operation ends (completes or is cancelled) unless the node goes off
Completes == \A n \in N : [](InProg(n, op) => <>(~InProg(n, op) \/ ~nodeOn))
=============================================================================
