----------------------------- MODULE MC_Link -----------------------------
(* Exhaustive model of Link: the *design* accounts a frame when it is      *)
(* admitted (load = carried + in flight).  Variant "after" reproduces the  *)
(* order found in the pinned code (account after the delivery returns):    *)
(* TLC refutes LoadWithinBandwidth/CarriedWithinBandwidth for it - kept as *)
(* a documented counterexample (MC_LinkAsCoded.cfg), not used by a check.  *)
EXTENDS Link, TLC

CONSTANTS MaxBw, Sizes, MaxNest, Variant

Init == \E b \in 1..MaxBw, w \in BOOLEAN : LinkInit(b, w, TRUE, TRUE)

\* a sender runs the admission test and, if admitted, the frame crosses
Send(sz) ==
    /\ Len(stack) < MaxNest
    /\ LET ok == IF Variant = "design" THEN AdmitOK(sz) ELSE (Up /\ load + sz <= bw)
       IN  IF ok
           THEN \* Admit and Begin in one step (the code calls them back to back)
                /\ Up
                /\ stack' = Append(stack, sz)
                /\ load' = IF Variant = "design" THEN load + sz ELSE load
                /\ UNCHANGED <<bw, wireless, upA, upB, carried>>
           ELSE UNCHANGED lvars

Finish(received) ==
    /\ stack # <<>>
    /\ LET sz == stack[Len(stack)]
           nl == IF Variant = "design"
                 THEN (IF received THEN load ELSE load - sz)
                 ELSE (IF received THEN load + sz ELSE load)
       IN End(received, nl)

Toggle(side) ==
    /\ stack = <<>>
    /\ LET cur == IF side = "A" THEN upA ELSE upB IN SetEnd(side, ~cur, load)

Next ==
    \/ PreTick(0)
    \/ \E sz \in Sizes : Send(sz)
    \/ \E r \in BOOLEAN : Finish(r)
    \/ \E s \in {"A", "B"} : Toggle(s)

Spec == Init /\ [][Next]_lvars

\* design-level refinement of the reported load
LoadIsCommitted == Variant = "design" => load = Committed
=============================================================================
