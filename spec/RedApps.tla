------------------------------- MODULE RedApps -------------------------------
(***************************************************************************)
(* Red applications as stage machines (extension module, beyond the listed *)
(* properties): DataManipulationBot ("dm"), RansomwareScript ("rw") and    *)
(* the DatabaseClient ("dbc") they use on host h1, DoSBot ("dos") on host  *)
(* h2, and the database file ("db") of the DatabaseService they target.    *)
(*                                                                         *)
(* The contract clauses and where they come from                           *)
(*  C1 StageOrder   each attack stage is entered only from its documented  *)
(*     predecessor: NOT_STARTED -> LOGON -> PORT_SCAN -> ATTACKING ->      *)
(*     SUCCEEDED | FAILED for the data manipulation bot                    *)
(*     (data_manipulation_bot.py DataManipulationAttackStage docstrings;   *)
(*     data_manipulation_bot.rst "The bot performs attacks in the          *)
(*     following stages"; _logon/_perform_port_scan/_perform_data_         *)
(*     manipulation docstrings "Advances the attack stage to ...").        *)
(*     NOT_STARTED -> PORT_SCAN -> ATTACKING -> COMPLETED for the DoS bot  *)
(*     (dos_bot.py DoSAttackStage docstrings).  ATTACKING is transient     *)
(*     inside one call; an implementation that goes PORT_SCAN ->           *)
(*     SUCCEEDED | FAILED in one step is accepted.                         *)
(*  C2 Gates   a stage advances only through its probability gate          *)
(*     (port_scan_p_of_success "chance ... to succeed with a port scan     *)
(*     (and therefore continue the attack)", data_manipulation_p_of_       *)
(*     success: .rst Configuration sections): p = 1.0 always advances,     *)
(*     p = 0.0 never does, other values either (percent 0 / 100 / other).  *)
(*     A failed gate leaves the stage where it is (the attempt is          *)
(*     repeated at the next execution).                                    *)
(*  C3 NothingUnlessEnabled   an application loop does nothing unless the  *)
(*     application is RUNNING on a node that is ON and a target / server   *)
(*     address is configured (_application_loop: _can_perform_action,      *)
(*     "requires both a target_ip_address and payload", "DoS bot cannot    *)
(*     do anything without a target"; software.rst / C13: only running     *)
(*     software works).                                                    *)
(*  C4 DbOnlyBySuccess   the only way these applications change the        *)
(*     database file is a successful attack: the payload is delivered over *)
(*     a connection of the host's RUNNING DatabaseClient, the stage        *)
(*     becomes SUCCEEDED (ransomware: the attack returns True) and the     *)
(*     file's health becomes what the payload does (DELETE -> COMPROMISED, *)
(*     ENCRYPT -> CORRUPT; database_service.py _process_sql,               *)
(*     ransomware_script.rst "set a database's database.db into a          *)
(*     CORRUPTED state", data_manipulation_bot.rst "Results in malicious   *)
(*     SQL being executed", "The host running DataManipulationBot must     *)
(*     also have a DatabaseClient installed").  A failed attack leaves the *)
(*     file as it is.  With everything in order (client RUNNING, service   *)
(*     reachable) the attack succeeds (determined outcome).                *)
(*  C5 Repeat   `repeat': a finished (SUCCEEDED / FAILED) data             *)
(*     manipulation attack starts again from NOT_STARTED iff repeat        *)
(*     ("Whether to repeat attacking once finished"); the DoS bot goes     *)
(*     back to NOT_STARTED after ATTACKING iff repeat ("If True the        *)
(*     dos-bot will maintain its attack"), else to COMPLETED.              *)
(*  C6 DosBound   the DoS bot holds at most int(max_sessions *             *)
(*     dos_intensity) <= max_sessions connections (dos_bot.rst             *)
(*     max_sessions "The maximum number of sessions the dos-bot is able to *)
(*     make", dos_intensity "multiplied by the number of max_sessions").   *)
(*  C7 FreshStart   a reset / freshly built game starts every machine from *)
(*     NOT_STARTED with no connection and a GOOD database.                 *)
(*  C8 binding clauses: request status = what the loop returned; software  *)
(*     opens / closes as Application.run / close say; nothing RUNNING on a *)
(*     node that is OFF.                                                   *)
(*                                                                         *)
(* Latitude: no DatabaseClient on the host is outside the documented       *)
(* precondition of dm / rw: the attack cannot be delivered; dm may give up *)
(* (FAILED) from any stage, the database never changes.  With strict =     *)
(* FALSE (scenario-scale traces: routers / ACLs / other agents between the *)
(* client and the service are not modelled) the outcome of a delivered     *)
(* attack is free (SUCCEEDED with the payload's effect or FAILED without   *)
(* any) and environment events (Env) are allowed.                          *)
(*                                                                         *)
(* One action per handler / phase of the code: *Begin = entry of           *)
(* _application_loop (the gate), Logon/Scan/Manip/Encrypt/Attack = the     *)
(* phase methods, *End = return of _application_loop (repeat handling),    *)
(* Run / Close = Application.run / close, NodeSet = a write of the node's  *)
(* operating state, ExecCall / Exec = the execute request, Tick, Configure,*)
(* Reach (service stop / start, network built), DbFix, Reset, Env.         *)
(* Configuration lives in variables that never change.                     *)
(***************************************************************************)
EXTENDS Naturals, FiniteSets

VARIABLES
    \* configuration (never changes)
    pScan, pAtk,        \* dm gates, percent: 0, 100, or anything else = "may go either way"
    dmRepeat, dmPayload,
    dosP, dosRepeat, dosMax, dosInt,   \* dos gate, repeat, max_sessions, dos_intensity (percent)
    hasClient,          \* a DatabaseClient is installed on h1
    cfgTgt,             \* [Bots -> BOOLEAN] target configured in the scenario file
    app0,               \* [Apps -> "CLOSED" | "ABSENT"] what a freshly built game installs
    strict,             \* the path to the service is modelled (reach); no unexplained environment events
    \* state
    on,                 \* [Hosts -> BOOLEAN] node operating state is ON
    off,                \* [Hosts -> BOOLEAN] node operating state is OFF (neither: booting / shutting down)
    app,                \* [Apps -> "RUNNING" | "CLOSED" | "ABSENT"]
    tgt,                \* [Bots -> BOOLEAN] target / server address configured
    dmStage, dosStage,
    conn,               \* [{"dm","rw"} -> BOOLEAN] the bot holds a connection handle
    dosConns,           \* connections held by the DoS bot
    db,                 \* health of the database file
    reach,              \* the database service is RUNNING and reachable
    pc,                 \* phase of the application loop in progress ("idle": none)
    ret                 \* what the last loop returned: "none" | "T" | "F"

cvars == <<pScan, pAtk, dmRepeat, dmPayload, dosP, dosRepeat, dosMax, dosInt, hasClient, cfgTgt, app0, strict>>
dvars == <<on, off, app, tgt, dmStage, dosStage, conn, dosConns, db, reach, pc, ret>>
rvars == <<cvars, dvars>>

Hosts == {"h1", "h2"}
Bots  == {"dm", "rw", "dos"}
Apps  == {"dm", "rw", "dos", "dbc"}
HostOf(a) == IF a = "dos" THEN "h2" ELSE "h1"
DmStages  == {"NOT_STARTED", "LOGON", "PORT_SCAN", "ATTACKING", "SUCCEEDED", "FAILED"}
DosStages == {"NOT_STARTED", "PORT_SCAN", "ATTACKING", "COMPLETED"}
DbStates  == {"GOOD", "COMPROMISED", "CORRUPT"}
Terminal  == {"SUCCEEDED", "FAILED"}
Idle == pc = "idle"

\* the projection compared with the real objects after every event
Proj == [on |-> on, app |-> app, tgt |-> tgt, dmStage |-> dmStage, dosStage |-> dosStage,
         conn |-> conn, dosConns |-> dosConns, db |-> db, reach |-> reach]

Fresh(present) == [a \in Apps |-> IF a \in present THEN "CLOSED" ELSE "ABSENT"]

RedInit(c) ==
    /\ pScan = c.pScan /\ pAtk = c.pAtk /\ dmRepeat = c.dmRepeat /\ dmPayload = c.dmPayload
    /\ dosP = c.dosP /\ dosRepeat = c.dosRepeat /\ dosMax = c.dosMax /\ dosInt = c.dosInt
    /\ hasClient = c.hasClient /\ cfgTgt = c.tgt /\ app0 = c.app0 /\ strict = c.strict
    /\ on = [h \in Hosts |-> TRUE] /\ off = [h \in Hosts |-> FALSE]
    /\ app = c.app0
    /\ tgt = c.tgt
    /\ dmStage = "NOT_STARTED" /\ dosStage = "NOT_STARTED"
    /\ conn = [b \in {"dm", "rw"} |-> FALSE] /\ dosConns = 0
    /\ db = "GOOD" /\ reach = FALSE
    /\ pc = "idle" /\ ret = "none"

-----------------------------------------------------------------------------
Enabled(a) == on[HostOf(a)] /\ app[a] = "RUNNING" /\ tgt[a]
Gate(p, yes, no) == IF p = 100 THEN {yes} ELSE IF p = 0 THEN {no} ELSE {yes, no}
Effect(payload, d) == CASE payload = "DELETE" -> "COMPROMISED" [] payload = "ENCRYPT" -> "CORRUPT" [] OTHER -> d
DosBound == (dosMax * dosInt) \div 100
Max(x, y) == IF x >= y THEN x ELSE y

\* a new connection can be obtained from the host's database client / a query is answered
ClientWorks == hasClient /\ on["h1"] /\ app["dbc"] = "RUNNING"
CanConnect  == ClientWorks /\ reach
Answered    == ClientWorks /\ reach

(* ---- the outcome of delivering `payload' for bot b (dm / rw): <<success, db', conn'>> ---- *)
Deliveries(b, payload) ==
    IF ~hasClient THEN {<<"nothing", db, conn[b]>>}
    ELSE IF ~conn[b] /\ ~CanConnect THEN {<<"nothing", db, FALSE>>}
    ELSE IF ~strict
         THEN {<<"ok", Effect(payload, db), TRUE>>, <<"fail", db, TRUE>>} \cup
              (IF conn[b] THEN {} ELSE {<<"nothing", db, FALSE>>})
         ELSE IF Answered THEN {<<"ok", Effect(payload, db), TRUE>>}
              ELSE {<<"fail", db, TRUE>>}

-----------------------------------------------------------------------------
(* data manipulation bot *)
DmBegin ==
    /\ Idle
    /\ pc' = IF Enabled("dm") THEN "dm.logon" ELSE "dm.skip"
    /\ ret' = "none"
    /\ UNCHANGED <<cvars, on, off, app, tgt, dmStage, dosStage, conn, dosConns, db, reach>>

LogonTarget == IF dmStage = "NOT_STARTED" THEN "LOGON" ELSE dmStage
DmLogon(st2) ==
    /\ pc = "dm.logon" /\ pc' = "dm.scan"
    /\ st2 = LogonTarget
    /\ dmStage' = st2
    /\ UNCHANGED <<cvars, on, off, app, tgt, dosStage, conn, dosConns, db, reach, ret>>

ScanTargets == IF dmStage = "LOGON" THEN Gate(pScan, "PORT_SCAN", "LOGON") ELSE {dmStage}
DmScan(st2) ==
    /\ pc = "dm.scan" /\ pc' = "dm.manip"
    /\ st2 \in ScanTargets
    /\ dmStage' = st2
    /\ UNCHANGED <<cvars, on, off, app, tgt, dosStage, conn, dosConns, db, reach, ret>>

\* <<stage', db', conn'>> allowed for the attack phase
ManipOutcomes ==
    IF ~hasClient THEN {<<dmStage, db, conn["dm"]>>, <<"FAILED", db, conn["dm"]>>}
    ELSE IF dmStage \notin {"PORT_SCAN", "ATTACKING"} THEN {<<dmStage, db, conn["dm"]>>}
    ELSE (IF pAtk = 100 THEN {} ELSE {<<dmStage, db, conn["dm"]>>}) \cup
         (IF pAtk = 0 THEN {} ELSE
            {<<(CASE d[1] = "ok" -> "SUCCEEDED" [] d[1] = "fail" -> "FAILED" [] OTHER -> dmStage), d[2], d[3]>> :
                d \in Deliveries("dm", dmPayload)})
DmManip(st2, db2, c2) ==
    /\ pc = "dm.manip" /\ pc' = "dm.end"
    /\ <<st2, db2, c2>> \in ManipOutcomes
    /\ dmStage' = st2 /\ db' = db2 /\ conn' = [conn EXCEPT !["dm"] = c2]
    /\ UNCHANGED <<cvars, on, off, app, tgt, dosStage, dosConns, reach, ret>>

DmEndTarget == IF pc = "dm.end" /\ dmRepeat /\ dmStage \in Terminal THEN "NOT_STARTED" ELSE dmStage
DmEnd(r, st2) ==
    /\ pc \in {"dm.end", "dm.skip"} /\ pc' = "idle"
    /\ r = (pc = "dm.end")
    /\ st2 = DmEndTarget
    /\ dmStage' = st2
    /\ ret' = IF r THEN "T" ELSE "F"
    /\ UNCHANGED <<cvars, on, off, app, tgt, dosStage, conn, dosConns, db, reach>>

(* ransomware script: one action, no stages *)
RwBegin ==
    /\ Idle
    /\ pc' = IF Enabled("rw") THEN "rw.enc" ELSE "rw.skip"
    /\ ret' = "none"
    /\ UNCHANGED <<cvars, on, off, app, tgt, dmStage, dosStage, conn, dosConns, db, reach>>

EncryptOutcomes == {<<d[1] = "ok", d[2], d[3]>> : d \in Deliveries("rw", "ENCRYPT")}
RwEncrypt(r, db2, c2) ==
    /\ pc = "rw.enc" /\ pc' = "rw.end"
    /\ <<r, db2, c2>> \in EncryptOutcomes
    /\ db' = db2 /\ conn' = [conn EXCEPT !["rw"] = c2]
    /\ ret' = IF r THEN "T" ELSE "F"
    /\ UNCHANGED <<cvars, on, off, app, tgt, dmStage, dosStage, dosConns, reach>>

RwEnd(r) ==
    /\ pc \in {"rw.end", "rw.skip"} /\ pc' = "idle"
    /\ r = (pc = "rw.end" /\ ret = "T")
    /\ ret' = IF r THEN "T" ELSE "F"
    /\ UNCHANGED <<cvars, on, off, app, tgt, dmStage, dosStage, conn, dosConns, db, reach>>

(* denial of service bot *)
DosBegin ==
    /\ Idle
    /\ pc' = IF Enabled("dos") THEN "dos.scan" ELSE "dos.skip"
    /\ ret' = "none"
    /\ UNCHANGED <<cvars, on, off, app, tgt, dmStage, dosStage, conn, dosConns, db, reach>>

DosScanTargets == IF dosStage = "NOT_STARTED" THEN Gate(dosP, "PORT_SCAN", "NOT_STARTED") ELSE {dosStage}
DosScan(st2) ==
    /\ pc = "dos.scan" /\ pc' = "dos.attack"
    /\ st2 \in DosScanTargets
    /\ dosStage' = st2
    /\ UNCHANGED <<cvars, on, off, app, tgt, dmStage, conn, dosConns, db, reach, ret>>

DosAttackStage == IF dosStage = "PORT_SCAN" THEN "ATTACKING" ELSE dosStage
DosAttackConns ==
    IF dosStage = "PORT_SCAN" /\ (reach \/ ~strict) THEN dosConns..Max(dosConns, DosBound) ELSE {dosConns}
DosAttack(st2, n2) ==
    /\ pc = "dos.attack" /\ pc' = "dos.end"
    /\ st2 = DosAttackStage
    /\ n2 \in DosAttackConns
    /\ dosStage' = st2 /\ dosConns' = n2
    /\ UNCHANGED <<cvars, on, off, app, tgt, dmStage, conn, db, reach, ret>>

DosEndTarget ==
    IF pc = "dos.end" /\ dosStage = "ATTACKING"
    THEN (IF dosRepeat THEN "NOT_STARTED" ELSE "COMPLETED")
    ELSE dosStage
DosEnd(r, st2) ==
    /\ pc \in {"dos.end", "dos.skip"} /\ pc' = "idle"
    /\ r = (pc = "dos.end")
    /\ st2 = DosEndTarget
    /\ dosStage' = st2
    /\ ret' = IF r THEN "T" ELSE "F"
    /\ UNCHANGED <<cvars, on, off, app, tgt, dmStage, conn, dosConns, db, reach>>

-----------------------------------------------------------------------------
(* lifecycle / environment *)
RunTarget(a) == IF on[HostOf(a)] /\ app[a] = "CLOSED" THEN "RUNNING" ELSE app[a]
Run(a, st2) ==
    /\ Idle /\ a \in Apps /\ app[a] # "ABSENT"
    /\ st2 = RunTarget(a)
    /\ app' = [app EXCEPT ![a] = st2]
    /\ UNCHANGED <<cvars, on, off, tgt, dmStage, dosStage, conn, dosConns, db, reach, pc, ret>>

CloseTarget(a) == IF app[a] = "RUNNING" THEN "CLOSED" ELSE app[a]
Close(a, st2) ==
    /\ Idle /\ a \in Apps /\ app[a] # "ABSENT"
    /\ st2 = CloseTarget(a)
    /\ app' = [app EXCEPT ![a] = st2]
    /\ UNCHANGED <<cvars, on, off, tgt, dmStage, dosStage, conn, dosConns, db, reach, pc, ret>>

\* a write of the node's operating state: `b' = it is ON, `o' = it is OFF (neither: a transitional state).  The
\* handler that writes OFF closes the applications (just before or just after the write, inside the same call):
\* nothing is RUNNING on an OFF node at any later event (NothingRunsWhenOff)
NothingRunsOn(h) == \A a \in Apps : HostOf(a) = h => app[a] # "RUNNING"
NodeSet(h, b, o) ==
    /\ Idle /\ h \in Hosts
    /\ ~(b /\ o)
    /\ on' = [on EXCEPT ![h] = b]
    /\ off' = [off EXCEPT ![h] = o]
    /\ UNCHANGED <<cvars, app, tgt, dmStage, dosStage, conn, dosConns, db, reach, pc, ret>>

\* rw.configure only ever sets an address ("if server_ip_address:"), dm / dos.configure replace it
ConfigureTarget(a, t) == IF a = "rw" THEN (tgt[a] \/ t) ELSE t
Configure(a, t) ==
    /\ Idle /\ a \in Bots /\ app[a] # "ABSENT"
    /\ tgt' = [tgt EXCEPT ![a] = ConfigureTarget(a, t)]
    /\ UNCHANGED <<cvars, on, off, app, dmStage, dosStage, conn, dosConns, db, reach, pc, ret>>

Reach(b) ==
    /\ Idle
    /\ reach' = b
    /\ UNCHANGED <<cvars, on, off, app, tgt, dmStage, dosStage, conn, dosConns, db, pc, ret>>

DbFix ==
    /\ Idle
    /\ db' = "GOOD"
    /\ UNCHANGED <<cvars, on, off, app, tgt, dmStage, dosStage, conn, dosConns, reach, pc, ret>>

ExecCall(a) ==
    /\ Idle /\ a \in Bots
    /\ ret' = "none"
    /\ UNCHANGED <<cvars, on, off, app, tgt, dmStage, dosStage, conn, dosConns, db, reach, pc>>

\* the execute request returns: its status is what the loop returned (no loop ran: failure)
Exec(a, ok) ==
    /\ Idle /\ a \in Bots
    /\ ok = (ret = "T")
    /\ ret' = "none"
    /\ UNCHANGED <<cvars, on, off, app, tgt, dmStage, dosStage, conn, dosConns, db, reach, pc>>

Tick ==
    /\ Idle
    /\ ret' = "none"
    /\ UNCHANGED <<cvars, on, off, app, tgt, dmStage, dosStage, conn, dosConns, db, reach, pc>>

\* episode reset: the game is built again from the same configuration
Reset ==
    /\ Idle
    /\ on' = [h \in Hosts |-> TRUE] /\ off' = [h \in Hosts |-> FALSE]
    /\ app' = app0
    /\ tgt' = cfgTgt
    /\ dmStage' = "NOT_STARTED" /\ dosStage' = "NOT_STARTED"
    /\ conn' = [b \in {"dm", "rw"} |-> FALSE] /\ dosConns' = 0
    /\ db' = "GOOD" /\ reach' = FALSE
    /\ pc' = "idle" /\ ret' = "none"
    /\ UNCHANGED cvars

\* environment events of a scenario that this module does not own (other agents, the network): they may move the
\* environment-owned part of the state only, never a stage, a connection handle or the DoS bot's connections
Env(s2) ==
    /\ Idle /\ ~strict
    /\ on' = s2.on /\ off' = [h \in Hosts |-> off[h] /\ ~s2.on[h]] /\ app' = s2.app /\ tgt' = s2.tgt /\ db' = s2.db /\ reach' = s2.reach
    /\ \A a \in Apps : (app[a] = "ABSENT") = (s2.app[a] = "ABSENT")
    /\ UNCHANGED <<cvars, dmStage, dosStage, conn, dosConns, pc, ret>>

-----------------------------------------------------------------------------
(* property clauses *)
TypeOK ==
    /\ on \in [Hosts -> BOOLEAN] /\ tgt \in [Bots -> BOOLEAN]
    /\ \A a \in Apps : app[a] \in {"RUNNING", "CLOSED", "ABSENT"}
    /\ dmStage \in DmStages /\ dosStage \in DosStages /\ db \in DbStates
    /\ conn \in [{"dm", "rw"} -> BOOLEAN] /\ dosConns \in Nat /\ reach \in BOOLEAN
    /\ ret \in {"none", "T", "F"}

DmEdge(x, y) ==
    \/ <<x, y>> \in {<<"NOT_STARTED", "LOGON">>, <<"LOGON", "PORT_SCAN">>, <<"PORT_SCAN", "ATTACKING">>,
                     <<"PORT_SCAN", "SUCCEEDED">>, <<"PORT_SCAN", "FAILED">>,
                     <<"ATTACKING", "SUCCEEDED">>, <<"ATTACKING", "FAILED">>,
                     <<"SUCCEEDED", "NOT_STARTED">>, <<"FAILED", "NOT_STARTED">>}
    \/ (~hasClient /\ y = "FAILED")
DosEdge(x, y) ==
    <<x, y>> \in {<<"NOT_STARTED", "PORT_SCAN">>, <<"PORT_SCAN", "ATTACKING">>,
                  <<"ATTACKING", "COMPLETED">>, <<"ATTACKING", "NOT_STARTED">>}
IsReset == pc = "idle" /\ reach' = FALSE /\ dmStage' = "NOT_STARTED" /\ dosStage' = "NOT_STARTED" /\ dosConns' = 0
           /\ db' = "GOOD" /\ tgt' = cfgTgt

\* C1
StageOrder ==
    [][/\ (dmStage' # dmStage /\ ~IsReset) => DmEdge(dmStage, dmStage')
       /\ (dosStage' # dosStage /\ ~IsReset) => DosEdge(dosStage, dosStage')]_rvars
\* C2
Gates ==
    [][/\ (dmStage = "LOGON" /\ dmStage' = "PORT_SCAN") => pScan > 0
       /\ (pc = "dm.scan" /\ dmStage = "LOGON" /\ dmStage' = "LOGON") => pScan < 100
       /\ (dmStage' = "SUCCEEDED" /\ dmStage # "SUCCEEDED") => pAtk > 0
       /\ (dosStage = "NOT_STARTED" /\ dosStage' = "PORT_SCAN") => dosP > 0
       /\ (pc = "dos.scan" /\ dosStage = "NOT_STARTED" /\ dosStage' = "NOT_STARTED") => dosP < 100]_rvars
\* C3
BotOf(p) == CASE p \in {"dm.logon", "dm.scan", "dm.manip", "dm.end"} -> "dm"
              [] p \in {"rw.enc", "rw.end"} -> "rw"
              [] p \in {"dos.scan", "dos.attack", "dos.end"} -> "dos"
              [] OTHER -> "none"
NothingUnlessEnabled == BotOf(pc) # "none" => Enabled(BotOf(pc))
OnlyLoopsChangeStages ==
    [][/\ (dmStage' # dmStage /\ ~IsReset) => BotOf(pc) = "dm"
       /\ (dosStage' # dosStage /\ ~IsReset) => BotOf(pc) = "dos"
       /\ (dosConns' # dosConns /\ ~IsReset) => pc = "dos.attack"]_rvars
\* C4
DbOnlyBySuccess ==
    [][db' # db =>
         \/ pc = "dm.manip" /\ dmStage' = "SUCCEEDED" /\ db' = Effect(dmPayload, db) /\ conn'["dm"]
         \/ pc = "rw.enc" /\ ret' = "T" /\ db' = Effect("ENCRYPT", db) /\ conn'["rw"]
         \/ pc = "idle"]_rvars           \* DbFix / Reset / Env: not these applications
DeliveryNeedsClient ==
    [][(db' # db /\ pc # "idle") => ClientWorks]_rvars
\* C5
RepeatFollowsSetting ==
    [][/\ (dmStage \in Terminal /\ dmStage' = "NOT_STARTED" /\ ~IsReset) => dmRepeat
       /\ (pc = "dm.end" /\ dmStage \in Terminal /\ dmRepeat) => dmStage' = "NOT_STARTED"
       /\ (dosStage = "ATTACKING" /\ dosStage' = "NOT_STARTED" /\ ~IsReset) => dosRepeat
       /\ (dosStage = "ATTACKING" /\ dosStage' = "COMPLETED") => ~dosRepeat]_rvars
NoTerminalAtRestWhenRepeating == (Idle /\ dmRepeat) => dmStage \notin Terminal
\* C6
DosWithinBound == dosConns <= DosBound /\ DosBound <= dosMax
\* C8 (in the exhaustive model the node goes OFF once its applications are closed: an invariant; in recorded
\* histories it is checked at every event that is not part of the power-off handler)
NothingRunsWhenOff == \A a \in Apps : app[a] = "RUNNING" => ~off[HostOf(a)]
=============================================================================
