--------------------------- MODULE MC_Instances ---------------------------
EXTENDS Instances, TLC
CONSTANTS MaxOps
VARIABLE n
mvars == <<ivars, n>>
Tick == n < MaxOps /\ n' = n + 1
Init == InstInit /\ n = 0
MConstruct(i, o) == Tick /\ Construct(i, o)
MReset(i) == Tick /\ Reset(i)
MStep(i) == Tick /\ Step(i)
MClose(i) == Tick /\ Close(i)
Next ==
    \/ \E i \in Inst, o \in Opts : MConstruct(i, o)
    \/ \E i \in Inst : MReset(i)
    \/ \E i \in Inst : MStep(i)
    \/ \E i \in Inst : MClose(i)
Spec == Init /\ [][Next]_mvars
View2 == ivars
=============================================================================
