SPECIFICATION Spec
CONSTANTS
  FixDurs = {0,1,2}
  ScanDurs = {0,1,2}
  RestDurs = {0,1,2}
  NodeDurs = {0,1,2}
  UseSw = TRUE
  UseFs = TRUE
  AllowRestart = FALSE
  InitSw = {"GOOD", "UNUSED"}

INVARIANT InvNeverOverdue
INVARIANT InvFixClock
INVARIANT InvTypes
PROPERTY SwVisibleOnlyByScan
PROPERTY FileVisibleOnlyByScan
PROPERTY FolderVisibleOnlyByScan
PROPERTY SwActualOnlyByEvent
PROPERTY FileHealthOnlyByEvent
PROPERTY ScanLeavesTruth
PROPERTY FixExactly
PROPERTY ScanInWindow
PROPERTY RestoreInWindow
PROPERTY OsScanInWindow
PROPERTY InstantOnlyAtZero
PROPERTY OffTicksChangeNothing
PROPERTY FixCompletes
PROPERTY ScanCompletes
PROPERTY RestoreCompletes
PROPERTY OsScanCompletes
CHECK_DEADLOCK TRUE
