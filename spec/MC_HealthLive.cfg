SPECIFICATION Spec
CONSTANTS
  FixDurs = {0,1,2}
  ScanDurs = {1}
  RestDurs = {1}
  NodeDurs = {0,1,2}
  UseSw = TRUE
  FsOps = {}
  AllowRestart = FALSE
  InitSw = {"GOOD"}
INVARIANT InvNeverOverdue
INVARIANT InvFixClock
INVARIANT InvTypes
PROPERTY SwVisibleOnlyByScan
PROPERTY FileVisibleOnlyByScan
PROPERTY FolderVisibleOnlyByScan
PROPERTY SwActualOnlyByEvent
PROPERTY FileHealthOnlyByEvent
PROPERTY ScanLeavesTruth
PROPERTY FixExactly
PROPERTY ScanInWindow
PROPERTY RestoreInWindow
PROPERTY OsScanInWindow
PROPERTY InstantOnlyAtZero
PROPERTY OffTicksChangeNothing
PROPERTY FixCompletes
PROPERTY OsScanCompletes
CHECK_DEADLOCK TRUE
