-------------------------- MODULE MC_ObsEncoding --------------------------
(* Generator model for ObsEncoding (C02 / C09): the INITIAL STATES are the  *)
(* finite component domain - every value of every simulator enumeration,    *)
(* counts from 0 past the top threshold, a covering set of utilisations,    *)
(* sessions 0..5, present / absent (deleted, uninstalled, padding), node    *)
(* ON / not ON, requires_scan on / off - and TLC checks EncodeInSpace in    *)
(* every one of them.  The single action `Check' exists only so that the    *)
(* model has a step; the harness reads the generator states back from TLC's *)
(* state dump and feeds each of them to the real observation classes.       *)
EXTENDS ObsEncoding

VARIABLES kind, cfg, truth, phase
vars == <<kind, cfg, truth, phase>>

\* (low, medium, high) threshold triples: the default and a tight custom one
Thr == {<<0, 5, 10>>, <<1, 2, 3>>}
WithThr(c, th) == [c EXCEPT !.lo = th[1], !.med = th[2], !.hi = th[3]]

\* utilisation numerators over the denominator 900 (ninths are exact): 0, tiny, each band boundary
\* and its two neighbours, exactly 1, just above 1, 10/9 and 2
UDen == 900
UNum == {0, 1, 1000, 1800} \cup UNION {{100 * k - 1, 100 * k, 100 * k + 1} : k \in 1..9}
UFew == {0, 450, 900, 1800}

InitService ==
    /\ kind = "service"
    /\ \E s \in BOOLEAN, ex \in BOOLEAN, on \in BOOLEAN, op \in 1..6, a \in 0..4, v \in 0..4 :
        /\ cfg = [Cfg0 EXCEPT !.scan = s]
        /\ truth = [Truth0 EXCEPT !.exists = ex, !.nodeOn = on, !.op = op, !.actual = a, !.visible = v]

InitApplication ==
    /\ kind = "application"
    /\ \E s \in BOOLEAN, ex \in BOOLEAN, on \in BOOLEAN, op \in 1..3, a \in 0..4, v \in 0..4, th \in Thr :
        \E n \in 0..(th[3] + 2) :
            /\ cfg = WithThr([Cfg0 EXCEPT !.scan = s], th)
            /\ truth = [Truth0 EXCEPT !.exists = ex, !.nodeOn = on, !.op = op, !.actual = a, !.visible = v,
                                      !.count = n]

InitFile ==
    /\ kind = "file"
    /\ \E s \in BOOLEAN, ia \in BOOLEAN, ex \in BOOLEAN, on \in BOOLEAN, a \in 0..5, v \in 0..5, th \in Thr :
        \E n \in 0..(th[3] + 2) :
            /\ cfg = WithThr([Cfg0 EXCEPT !.scan = s, !.incAccess = ia], th)
            /\ truth = [Truth0 EXCEPT !.exists = ex, !.nodeOn = on, !.actual = a, !.visible = v, !.count = n]

InitFolder ==
    /\ kind = "folder"
    /\ \/ \E ex \in BOOLEAN, on \in BOOLEAN, a \in 0..5, v \in 0..5, nf \in 0..2, sc \in BOOLEAN :
            \* true state always shown: no memory
            /\ cfg = [Cfg0 EXCEPT !.nFiles = nf]
            /\ truth = [Truth0 EXCEPT !.exists = ex, !.nodeOn = on, !.actual = a, !.visible = v, !.scanned = sc]
       \/ \E ex \in BOOLEAN, on \in BOOLEAN, a \in {1, 3}, v \in 0..5, nf \in {0, 2}, sc \in BOOLEAN, la \in 0..5 :
            \* scanning required: every (memory, scan completes this step?, visible status now)
            /\ cfg = [Cfg0 EXCEPT !.scan = TRUE, !.nFiles = nf]
            /\ truth = [Truth0 EXCEPT !.exists = ex, !.nodeOn = on, !.actual = a, !.visible = v, !.scanned = sc,
                                      !.last = la]

InitNic ==
    /\ kind = "nic"
    /\ \E inc \in BOOLEAN, cap \in BOOLEAN, ex \in BOOLEAN, on \in BOOLEAN, en \in BOOLEAN, th \in Thr :
        \E din \in 0..(th[3] + 2), dout \in 0..(th[3] + 2), pin \in {0, 4}, pout \in {0, 4} :
            \* without capture there are no counted events; without include_nmne they are not shown
            /\ (inc /\ cap) \/ (din = 0 /\ dout = 0 /\ pin = 0 /\ pout = 0)
            /\ cfg = WithThr([Cfg0 EXCEPT !.incNmne = inc, !.capNmne = cap], th)
            /\ truth = [Truth0 EXCEPT !.exists = ex, !.nodeOn = on, !.enabled = en,
                                      !.nmIn = pin + din, !.nmInPrev = pin, !.nmOut = pout + dout, !.nmOutPrev = pout]

InitTraffic ==
    /\ kind = "traffic"
    /\ \E ex \in BOOLEAN, on \in BOOLEAN, i \in UNum, o \in UNum :
        /\ i \in UFew \/ o \in UFew
        /\ cfg = Cfg0
        /\ truth = [Truth0 EXCEPT !.exists = ex, !.nodeOn = on, !.enabled = TRUE,
                                  !.inN = i, !.inD = UDen, !.outN = o, !.outD = UDen]

InitPort ==
    /\ kind = "port"
    /\ \E ex \in BOOLEAN, on \in BOOLEAN, en \in BOOLEAN :
        /\ cfg = Cfg0
        /\ truth = [Truth0 EXCEPT !.exists = ex, !.nodeOn = on, !.enabled = en]

InitHost ==
    /\ kind = "host"
    /\ \E ia \in BOOLEAN, iu \in BOOLEAN, ex \in BOOLEAN, op \in 1..4, cr \in 0..12, de \in 0..12, shape \in 0..1 :
        /\ cfg = [Cfg0 EXCEPT !.incAccess = ia, !.incUsers = iu, !.nSvc = shape, !.nApp = shape,
                              !.nFold = 2 * shape, !.nNic = shape + 1]
        /\ truth = [Truth0 EXCEPT !.exists = ex, !.nodeOn = (ex /\ op = 1), !.op = op, !.count = cr, !.count2 = de]

InitUsers ==
    /\ kind = "users"
    /\ \E ex \in BOOLEAN, on \in BOOLEAN, lo \in BOOLEAN, re \in 0..5 :
        /\ cfg = [Cfg0 EXCEPT !.incUsers = TRUE]
        /\ truth = [Truth0 EXCEPT !.exists = ex, !.nodeOn = on, !.local = lo, !.remote = re]

InitLink ==
    /\ kind = "link"
    /\ \E ex \in BOOLEAN, n \in UNum :
        /\ cfg = Cfg0
        /\ truth = [Truth0 EXCEPT !.exists = ex, !.nodeOn = TRUE, !.inN = n, !.inD = UDen]

\* ACL: one rule slot.  Wide configuration: lists of 2 / 1 / 2 / 2 entries, every combination of
\* any / listed / unlisted values; narrow configuration: empty lists, one slot.
Ix(n) == 0..n \cup {OUT}
AclWide == [Cfg0 EXCEPT !.nRules = 3, !.nIp = 2, !.nWc = 1, !.nPort = 2, !.nProto = 2]
AclNarrow == [Cfg0 EXCEPT !.nRules = 1]
\* skewed configuration: the lists have DIFFERENT lengths (more wildcards than addresses, more ports than protocols), so
\* that a field encoded or bounded with another field's list shows
AclSkew == [Cfg0 EXCEPT !.nRules = 2, !.nIp = 1, !.nWc = 3, !.nPort = 3, !.nProto = 1]
InitAcl ==
    /\ kind = "acl"
    /\ \/ \E as \in {<<1, 0>>, <<2, 2>>}, si \in Ix(2), di \in Ix(2), sw \in Ix(1), dw \in Ix(1),
            sp \in Ix(2), dp \in Ix(2), pr \in Ix(2) :
            /\ cfg = [AclWide EXCEPT !.slot = as[2]]
            /\ truth = [Truth0 EXCEPT !.exists = TRUE, !.nodeOn = TRUE, !.rule = TRUE, !.action = as[1],
                                      !.sIp = si, !.dIp = di, !.sWc = sw, !.dWc = dw, !.sPort = sp, !.dPort = dp,
                                      !.proto = pr]
       \/ \E a \in 1..2, si \in Ix(0), di \in Ix(0), sw \in Ix(0), dw \in Ix(0), sp \in Ix(0), dp \in Ix(0),
            pr \in Ix(0) :
            /\ cfg = AclNarrow
            /\ truth = [Truth0 EXCEPT !.exists = TRUE, !.nodeOn = TRUE, !.rule = TRUE, !.action = a,
                                      !.sIp = si, !.dIp = di, !.sWc = sw, !.dWc = dw, !.sPort = sp, !.dPort = dp,
                                      !.proto = pr]
       \/ \E si \in Ix(1), di \in Ix(1), sw \in Ix(3), dw \in Ix(3), sp \in {0, 3}, dp \in {0, 3}, pr \in Ix(1) :
            /\ cfg = [AclSkew EXCEPT !.slot = 1]
            /\ truth = [Truth0 EXCEPT !.exists = TRUE, !.nodeOn = TRUE, !.rule = TRUE, !.action = 2,
                                      !.sIp = si, !.dIp = di, !.sWc = sw, !.dWc = dw, !.sPort = sp, !.dPort = dp,
                                      !.proto = pr]
       \/ \E sl \in 0..2, ex \in BOOLEAN, on \in BOOLEAN, ru \in BOOLEAN :
            \* empty slot, router not ON, router missing (a rule with every field listed underneath)
            /\ ~(ex /\ on /\ ru)
            /\ cfg = [AclWide EXCEPT !.slot = sl]
            /\ truth = [Truth0 EXCEPT !.exists = ex, !.nodeOn = on, !.rule = ru, !.action = 2,
                                      !.sIp = 1, !.dIp = 2, !.sWc = 1, !.dWc = 1, !.sPort = 1, !.dPort = 2,
                                      !.proto = 1]

InitRouter ==
    /\ kind = "router"
    /\ \E nr \in 0..3, np \in 0..3, iu \in BOOLEAN, ex \in BOOLEAN, on \in BOOLEAN :
        /\ cfg = [Cfg0 EXCEPT !.nRules = nr, !.nPorts = np, !.incUsers = iu, !.nIp = 2, !.nWc = 1, !.nPort = 2,
                              !.nProto = 2]
        /\ truth = [Truth0 EXCEPT !.exists = ex, !.nodeOn = on]

InitFirewall ==
    /\ kind = "firewall"
    /\ \E nr \in 0..3, iu \in BOOLEAN, ex \in BOOLEAN, on \in BOOLEAN :
        /\ cfg = [Cfg0 EXCEPT !.nRules = nr, !.incUsers = iu, !.nIp = 2, !.nWc = 1, !.nPort = 2, !.nProto = 2]
        /\ truth = [Truth0 EXCEPT !.exists = ex, !.nodeOn = on]

Init ==
    /\ phase = "gen"
    /\ \/ InitService \/ InitApplication \/ InitFile \/ InitFolder \/ InitNic \/ InitTraffic \/ InitPort
       \/ InitHost \/ InitUsers \/ InitLink \/ InitAcl \/ InitRouter \/ InitFirewall

Check ==
    /\ phase = "gen"
    /\ phase' = "checked"
    /\ UNCHANGED <<kind, cfg, truth>>

Next == Check
Spec == Init /\ [][Next]_vars

\* the state dump lists each generator state once
GenView == <<kind, cfg, truth>>

TypeOK == kind \in Kinds /\ DOMAIN cfg = DOMAIN Cfg0 /\ DOMAIN truth = DOMAIN Truth0
EncodeInSpace == EncodeInSpaceAt(kind, cfg, truth)
\* the representative encoding is itself admissible (sanity of Encode)
EncodeAdmissible ==
    LET E == EncodeSet(kind, cfg, truth) IN \A f \in DOMAIN E : Encode(kind, cfg, truth)[f] \in E[f]
=============================================================================
