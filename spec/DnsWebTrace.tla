---------------------------- MODULE DnsWebTrace ----------------------------
(* Trace validation of recorded DNS / web exchanges of real PrimAITE objects against DnsWeb.tla (batch    *)
(* idiom of LinkTrace.tla).                                                                                *)
(*                                                                                                         *)
(* trace: cfg = [clients (sequence of ids), dnsCfg, on, dcOp, brOp, cache, hist (records keyed by id),     *)
(*               dsOp, wsOp, hasDb, direct, table, codes]                                                  *)
(* event: [ev |-> "LookupBegin"|"DnsServe"|"DnsReply"|"LookupEnd"|"BrowseBegin"|"WebServe"|"HttpResp"|     *)
(*                "WebLog"|"BrowseEnd"|"Register"|"AddCache"|"SetOp"|"Power"|"Tick"|"Raised",              *)
(*         c, kind, node, n, ip, host, lit, path, ok, conn, q, code, st, b,      (stimulus / result)       *)
(*         hist, cache, table, codes, up]     (read from the real objects after the call returned:         *)
(*         history and cache of client c, the server's table, the web server's codes of this step, and     *)
(*         who is ON / RUNNING as records [k |-> "on"|"dc"|"br"|"ds"|"ws", x |-> node or client id])       *)
(* names / addresses are tokens (sequences `cache', `table' hold records [n, ip]).                         *)
EXTENDS DnsWeb, TLC, TLCExt, Json, IOUtils

Traces == JsonDeserialize(IOEnv.TRACE_FILE)

VARIABLES tid, l
tvars == <<dwvars, tid, l>>

T == Traces[tid].ev
Cfg == Traces[tid].cfg
SetOf(s) == {s[i] : i \in 1..Len(s)}
FnOf(s) == [k \in {s[i].n : i \in 1..Len(s)} |-> s[CHOOSE i \in 1..Len(s) : s[i].n = k].ip]
ClientEvents == {"LookupBegin", "DnsServe", "DnsReply", "LookupEnd", "BrowseBegin", "WebServe", "HttpResp",
                 "BrowseEnd", "AddCache"}

UpOf(on_, dc_, br_, ds_, ws_) ==
    {[k |-> "on", x |-> nd] : nd \in {y \in Nodes : on_[y]}}
    \cup {[k |-> "dc", x |-> c] : c \in {y \in clients : dc_[y] = Running}}
    \cup {[k |-> "br", x |-> c] : c \in {y \in clients : br_[y] = Running}}
    \cup (IF ds_ = Running THEN {[k |-> "ds", x |-> ""]} ELSE {})
    \cup (IF ws_ = Running THEN {[k |-> "ws", x |-> ""]} ELSE {})

\* named clauses: predicates of (current specification state, event); the guard of the step
Clauses(e) ==
    LET c == e.c
        isC == c \in clients
        isOp(k) == e.ev = "SetOp" /\ e.kind = k
        onA == IF e.ev = "Power" /\ e.node \in Nodes THEN [on EXCEPT ![e.node] = e.b] ELSE on
        dcA == IF isOp("dc") /\ isC THEN [dcOp EXCEPT ![c] = e.st] ELSE dcOp
        brA == IF isOp("br") /\ isC THEN [brOp EXCEPT ![c] = e.st] ELSE brOp
        dsA == IF isOp("ds") THEN e.st ELSE dsOp
        wsA == IF isOp("ws") THEN e.st ELSE wsOp
        tblA == IF e.ev = "Register" /\ DsUp THEN Put(table, e.n, e.ip) ELSE table
        cacheA == IF ~isC THEN Empty
                  ELSE IF e.ev = "DnsReply" /\ e.ip # "" THEN Put(cache[c], e.n, e.ip)
                  ELSE IF e.ev = "AddCache" /\ DcUp(c) THEN Put(cache[c], e.n, e.ip)
                  ELSE cache[c]
        codesA == IF e.ev = "WebLog" THEN Append(codes, e.code) ELSE IF e.ev = "Tick" THEN <<>> ELSE codes
        end == e.ev = "BrowseEnd" /\ isC
    IN
    [ NoException              |-> e.ev # "Raised",
      KnownClient              |-> e.ev \in ClientEvents => isC,
      \* DNS
      LooksUpTheUrlHost        |-> (e.ev = "LookupBegin" /\ br.st # "idle") => (br.st = "begun" /\ br.c = c /\ br.host = e.n),
      AnswersFromTableOnly     |-> e.ev = "DnsServe" => AnswersFromTableOnly(e.n, e.ip),
      SilentUnlessRunning      |-> e.ev = "DnsServe" => SilentUnlessRunning,
      CacheBeforeAsk           |-> e.ev = "DnsServe" => CacheBeforeAsk,
      ReplyAsSent              |-> e.ev = "DnsReply" => (lk.st = "answered" /\ lk.ans = e.ip /\ lk.n = e.n),
      CachesPositiveOnly       |-> isC => FnOf(e.cache) = cacheA,
      RegistersOnlyWhenRunning |-> FnOf(e.table) = tblA,
      LookupResult             |-> (e.ev = "LookupEnd" /\ isC) => (e.ok = LookupResult(c, e.n)),
      DnsServedWhenReachable   |-> e.ev = "LookupEnd" => LookupComplete,
      AddCacheWhenRunning      |-> (e.ev = "AddCache" /\ isC) => (e.ok = DcUp(c)),
      \* web
      ResolvesThroughDns       |-> end => ResolvesThroughDns,
      StatusRules              |-> e.ev = "WebServe" =>
                                       ((e.conn => hasDb) /\ (e.q => e.conn) /\ e.code \in StatusAllowed(e.path, e.conn, e.q)),
      ServesOnlyWhenRunning    |-> e.ev = "WebServe" => ServesOnlyWhenRunning,
      ServesTheRequest         |-> e.ev = "WebServe" => (br.st = "resolved" /\ br.addr = "w" /\ br.path = e.path /\ br.c = c),
      ResponseAsSent           |-> e.ev = "HttpResp" => (br.st = "served" /\ br.code = e.code /\ br.c = c),
      HistoryAppendOnly        |-> isC => (IF e.ev = "BrowseEnd" THEN HistoryAppendOnly(c, e.hist) ELSE e.hist = hist[c]),
      NoPendingItem            |-> \A i \in 1..Len(e.hist) : e.hist[i] \in FinalCodes,
      DeadBrowserRecordsNothing |-> end => DeadBrowserRecordsNothing(c, e.ok, e.hist),
      UnresolvedNotSent        |-> end => UnresolvedNotSent(c, e.ok, e.hist),
      NoResponseNotSuccessful  |-> end => NoResponseNotSuccessful(c, e.ok, e.hist),
      OutcomeAsReceived        |-> end => OutcomeAsReceived(c, e.ok, e.hist),
      WebServedWhenReachable   |-> end => BrowseComplete,
      CodesPerStep             |-> e.codes = codesA /\ (end => LoggedOnce),
      \* binding of the environment variables to the real objects
      StatesAgree              |-> SetOf(e.up) = UpOf(onA, dcA, brA, dsA, wsA)
    ]
Failing(e) == LET cl == Clauses(e) IN {k \in DOMAIN cl : ~cl[k]}

Step(e) ==
    CASE e.ev = "LookupBegin" -> LookupBegin(e.c, e.n)
      [] e.ev = "DnsServe"    -> DnsServe(e.c, e.n, e.ip)
      [] e.ev = "DnsReply"    -> DnsReply(e.c, e.n, e.ip)
      [] e.ev = "LookupEnd"   -> LookupEnd(e.c, e.n, e.ok)
      [] e.ev = "BrowseBegin" -> BrowseBegin(e.c, e.host, e.lit, e.path)
      [] e.ev = "WebServe"    -> WebServe(e.c, e.path, e.conn, e.q, e.code)
      [] e.ev = "HttpResp"    -> HttpResp(e.c, e.code)
      [] e.ev = "WebLog"      -> WebLog(e.code)
      [] e.ev = "BrowseEnd"   -> BrowseEnd(e.c, e.ok, e.hist)
      [] e.ev = "Register"    -> Register(e.n, e.ip)
      [] e.ev = "AddCache"    -> AddCache(e.c, e.n, e.ip, e.ok)
      [] e.ev = "SetOp"       -> SetOp(e.kind, e.c, e.st)
      [] e.ev = "Power"       -> Power(e.node, e.b)
      [] e.ev = "Tick"        -> Tick
      [] OTHER -> FALSE

Cl == SetOf(Cfg.clients)
TraceInit ==
    /\ tid \in 1..Len(Traces)
    /\ l = 1
    /\ DnsWebInit(Cl, [c \in Cl |-> Cfg.dnsCfg[c]], Cfg.hasDb, Cfg.direct,
                  [nd \in Cl \cup {"d", "w"} |-> Cfg.on[nd]],
                  [c \in Cl |-> Cfg.dcOp[c]], [c \in Cl |-> Cfg.brOp[c]], Cfg.dsOp, Cfg.wsOp,
                  FnOf(Cfg.table), [c \in Cl |-> FnOf(Cfg.cache[c])], [c \in Cl |-> Cfg.hist[c]], Cfg.codes)

TraceNext ==
    /\ l <= Len(T)
    /\ Failing(T[l]) = {}
    /\ Step(T[l])
    /\ l' = l + 1
    /\ UNCHANGED tid

TraceSpec == TraceInit /\ [][TraceNext]_tvars

Seen == TLCGet(tid)
Record ==
    IF l > Seen.pos
    THEN TLCSet(tid, [pos |-> l,
                      fail |-> IF l <= Len(T) THEN Failing(T[l]) ELSE {},
                      st |-> [lk |-> lk, br |-> br, codes |-> codes,
                              up |-> {<<u.k, u.x>> : u \in UpOf(on, dcOp, brOp, dsOp, wsOp)},
                              table |-> {<<n, table[n]>> : n \in DOMAIN table},
                              cache |-> UNION {{<<c, n, cache[c][n]>> : n \in DOMAIN cache[c]} : c \in clients},
                              histlen |-> {<<c, Len(hist[c])>> : c \in clients}]])
    ELSE TRUE
InitRegs == \A i \in 1..Len(Traces) : TLCSet(i, [pos |-> 0, fail |-> {}, st |-> <<>>])
ASSUME InitRegs

Report ==
    \A i \in 1..Len(Traces) :
        LET r == TLCGet(i) IN
        /\ PrintT(<<"TRACE", i, r.pos, Len(Traces[i].ev)>>)
        /\ (r.pos = Len(Traces[i].ev) + 1 \/ PrintT(<<"STUCK", i, r.pos, r.fail, r.st>>))
=============================================================================
