SPECIFICATION Spec
CONSTANTS
  FolderNames = {"f"}
  FileNames = {"a.txt", "b.txt"}
  MaxItems = 5
  MaxDepth = 9
VIEW View
INVARIANT InvUniqueLiveNames
INVARIANT RootStays
PROPERTY PAppendOnly
PROPERTY PFrozenWhenOff
CHECK_DEADLOCK FALSE
