-------------------------------- MODULE Nmap --------------------------------
(***************************************************************************)
(* The NMAP application (extension module, beyond the listed properties):  *)
(* ping scan, port scan and network service recon of                       *)
(* primaite/simulator/system/applications/nmap.py, through the requests    *)
(* ping_scan / port_scan / network_service_recon (agent actions            *)
(* node-nmap-ping-scan, node-nmap-port-scan, node-network-service-recon)   *)
(* and through the Python API.                                             *)
(*                                                                         *)
(* Shape: a scan is a call tree of the real code, one action per handler:  *)
(*   ScanStart  entry of _ping_scan_action / _port_scan_action /           *)
(*              _network_service_recon_action (via = "request") or of      *)
(*              ping_scan / port_scan / network_service_recon ("api")      *)
(*   Ping       one ICMP.ping call made by ping_scan (nmap.py:221)         *)
(*   PortPhase  network_service_recon handing the ping results to          *)
(*              port_scan (nmap.py:436)                                    *)
(*   Probe      _check_port_open_on_ip_address sending a PortScanPayload   *)
(*   Answer     the target's NMAP._process_port_scan_request               *)
(*   Response   the scanner's NMAP._process_port_scan_response             *)
(*   ProbeEnd   return of _check_port_open_on_ip_address                   *)
(*   ScanEnd    return of the request / API call                           *)
(* and the environment (not under test, it moves the world the scans look  *)
(* at): Power, Nic, Sw (a service / application started or stopped) and    *)
(* EnvSet (scenario-scale runs: the world as found before a scan).         *)
(* Where the implementation has latitude the action takes the logged value *)
(* as a parameter; the clauses below judge it.                             *)
(*                                                                         *)
(* Contract clauses (name : source)                                        *)
(*  PingScanExact : nmap.rst:28-30 "identify which hosts on a network are  *)
(*     active and reachable ... If a host responds with an ICMP Echo       *)
(*     Reply, it is considered active"; ping_scan docstring (nmap.py:206)  *)
(*     ":return: A list of active IP addresses that responded to the       *)
(*     ping."  A host answers iff it is ON, the addressed interface is     *)
(*     enabled and echo request and reply can travel: same subnet, or via  *)
(*     the default gateway (a router that is ON, whose interfaces on both  *)
(*     networks are enabled and whose ACL permits ICMP - router.rst,       *)
(*     Router.receive_frame docstring "applies ACL rules").                *)
(*  NeverDeadAddress : _explode_ip_address_network_array docstring         *)
(*     (nmap.py:160-162) "Broadcast and network addresses are excluded     *)
(*     from the result"; nmap.rst:104, 128-139 (pc_3, not powered on, is   *)
(*     listed); an address nobody owns cannot answer.                      *)
(*  PortOpenIffListening / PortScanExact : nmap.rst:35-37 "detect open     *)
(*     ports on a target host ... Open ports can indicate running          *)
(*     services"; SoftwareManager.check_port_is_open docstring             *)
(*     (software_manager.py:87-99) "True if the port is open and a service *)
(*     is running on it using the specified protocol"; common_             *)
(*     configuration.rst:33-37 "listen_on_ports ... The set of ports to    *)
(*     listen on. This is in addition to the main port the software is     *)
(*     designated" and SoftwareManager.get_open_ports docstring "a list of *)
(*     all open ports on the Node" (it counts them); port_scan docstring   *)
(*     (nmap.py:352) "A dictionary mapping IP addresses to protocols and   *)
(*     lists of open ports"; _check_port_open_on_ip_address (nmap.py:272)  *)
(*     "Return True if a response has been received".  The probe travels   *)
(*     as a frame of that protocol and port, so a router ACL that denies   *)
(*     the protocol / port hides the port.  The answering side is the      *)
(*     target's own NMAP (HostNode.receive_frame, host_node.py:422-430     *)
(*     "can_accept_nmap"; SoftwareManager.receive_payload_from_session_    *)
(*     manager): a target whose NMAP is not RUNNING does not answer - this *)
(*     is modelled as coded and listed as an assumption.                   *)
(*  NothingForDeadTargets : nmap.rst:155-174 (horizontal scan of .12 and   *)
(*     the powered-off .13 returns .12 only).                              *)
(*  ScanRunsToEnd : _explode_ip_address_network_array docstring           *)
(*     (nmap.py:158-162) "Explode a mixed array of IP addresses and        *)
(*     networks into the unique individual IP addresses. This method takes *)
(*     a combination of single and lists of IPv4 addresses and IPv4        *)
(*     networks": every address the request names (network and broadcast   *)
(*     addresses of its networks aside) is pinged / probed before the      *)
(*     scan reports.                                                       *)
(*  ReconScansOnlyLiveHosts : network_service_recon docstring              *)
(*     (nmap.py:410-414) "performs a port scan on these hosts ... This     *)
(*     two-step process ensures that the port scan is performed only on    *)
(*     live hosts".                                                        *)
(*  ResultInRequestOrder : commit 007ad5a "nmap scans visit target         *)
(*     addresses in the order given"; _explode_ip_address_network_array    *)
(*     "unique addresses in the order they were given"; protocols follow   *)
(*     the request list (nmap.py:378).                                     *)
(*  PortsInRequestOrder : nmap.rst:193-211 (vertical scan of               *)
(*     target_port=[21, 22, 80, 443] returns [FTP 21, HTTP 80]) and        *)
(*     nmap.rst:228-258 (box scan): the open ports of a protocol are       *)
(*     listed in the order of the request's port list.                     *)
(*  ResultJsonSerialisable : ping_scan / port_scan docstrings              *)
(*     ":param json_serializable: ... the return value should be json      *)
(*     serializable"; the request handlers pass json_serializable=True     *)
(*     and TAP001 (TAP001.py:690 "This assumes that NMAP's action response *)
(*     stays consistent") reads response.data["live_hosts"].               *)
(*  NotRunningReturnsNothing / NoTrafficUnlessRunning :                    *)
(*     Application._can_perform_action docstring (application.py:158-166)  *)
(*     "Checks if the application can perform actions. This is done by     *)
(*     checking if the application is operating properly or the node it is *)
(*     installed in is operational"; NMAP._can_perform_network_action      *)
(*     docstring (nmap.py:79-85) "Checks if the NMAP application can       *)
(*     perform outbound network actions ... checking if there is an        *)
(*     enabled NIC"; Application._StateValidator docstring "most actions   *)
(*     require the application to be in a specific state".  An NMAP that   *)
(*     is not RUNNING, or whose node is not ON / has no enabled interface, *)
(*     answers failure, reports nothing and puts no frame on the wire.     *)
(*  ProbesBounded : ICMP.ping docstring (icmp.py:60-68) "pings: The number *)
(*     of echo requests to send. Defaults to 4" - one ping() per address   *)
(*     per scan, at most 4 echo requests each; one PortScanPayload per     *)
(*     (target, protocol, port) (nmap.py:374-380).                         *)
(*  OneProbePerTriple / PingsInRequestOrder / OnePingPerAddress : ditto.   *)
(*  AnswerByAddressee / AnswerIffOpen : _process_port_scan_request         *)
(*     (nmap.py:311-326) answers iff check_port_is_open.                   *)
(*  ResponseOnlyAfterAnswer / OpenIffResponse : nmap.py:272-278, 296-309.  *)
(*  TargetsUntouched : scanning is observation - no docstring lets a scan  *)
(*     change the operating state, health, software, files or interfaces   *)
(*     of another node (ARP caches, sessions and traffic counters aside).  *)
(*  Router addresses (as documented, not a divergence): a router takes     *)
(*     TCP / UDP frames for any of its addresses, also one of a disabled   *)
(*     interface, when they come in by an enabled one                      *)
(*     (Router.check_send_frame_to_session_manager docstring), but answers *)
(*     ICMP only for an enabled interface (RouterICMP.receive docstring).  *)
(*  OwnAddress (latitude, not a clause): nmap.py:218 "Prevent ping scan on *)
(*     this node" skips the scanner's own addresses, whereas the example   *)
(*     in nmap.rst:131-139 lists pc_1's own address among the live hosts:  *)
(*     the two sources disagree, so an own address may or may not appear.  *)
(*                                                                         *)
(* Configuration lives in variables that never change:                     *)
(*   kind[n] in {"host","router"}; gw[n] default gateway address (0: none);*)
(*   inst[n] software installed on n; own[a] the node owning address a;    *)
(*   nets[k] = [lo, hi] network and broadcast address of the network that  *)
(*   scan target 1000000 + k names; ifnet[a] = [lo, hi] the subnet of the  *)
(*   interface with address a; swpp[name] = <<proto, port>> of a piece of  *)
(*   software; lis = the <<node, software, port>> of the additional         *)
(*   listen_on_ports; deny = classes <<proto, port>> the                   *)
(*   router ACL denies (ICMP is <<"icmp", 0>>); routed = TRUE when the     *)
(*   network is the single-router network whose routed reachability this   *)
(*   module determines (otherwise reachability beyond the scanner's own    *)
(*   subnet is taken from the log and only its necessary conditions are    *)
(*   judged).  An address is (index of its /24 block) * 1000 + last octet; *)
(*   a network as a scan target is 1000000 + its index in nets.            *)
(***************************************************************************)
EXTENDS Naturals, Sequences, FiniteSets

VARIABLES kind, gw, inst, own, nets, ifnet, swpp, lis, deny, routed,   \* configuration
          on, nicUp, run,                                     \* environment: nodes ON, enabled interfaces, RUNNING software
          scan,                                               \* the scan in progress
          last,                                               \* the last finished scan
          act                                                 \* name and arguments of the last action
cvars == <<kind, gw, inst, own, nets, ifnet, swpp, lis, deny, routed>>
evars == <<on, nicUp, run>>
nvars == <<cvars, evars, scan, last, act>>

Nodes == DOMAIN kind
ICMPc == <<"icmp", 0>>
ArpC == <<"udp", 219>>      \* frames on the ARP port stay on their segment (Router.process_frame, router.py:1444-1447)
MaxEcho == 4
IsNetT(t) == t >= 1000000
NetsIn(ts) == {ts[i] - 1000000 : i \in {j \in 1..Len(ts) : IsNetT(ts[j])}} \cap DOMAIN nets
\* a is the network or the broadcast address of a network named in the target list ts
IsNetOrBcast(a, ts) == \E k \in NetsIn(ts) : a = nets[k].lo \/ a = nets[k].hi
SetOf(s) == {s[i] : i \in 1..Len(s)}
NoDup(s) == \A i, j \in 1..Len(s) : s[i] = s[j] => i = j
Idx(s, x) == CHOOSE i \in 1..Len(s) : s[i] = x

\* _explode_ip_address_network_array: networks become their usable host addresses, duplicates go, the order stays
One(t) == IF ~IsNetT(t) THEN <<t>>
          ELSE IF (t - 1000000) \notin DOMAIN nets THEN <<>>
          ELSE LET r == nets[t - 1000000] IN [i \in 1..(r.hi - r.lo - 1) |-> r.lo + i]
RECURSIVE Flat(_)
Flat(ts) == IF ts = <<>> THEN <<>> ELSE One(Head(ts)) \o Flat(Tail(ts))
RECURSIVE Dedup(_, _)
Dedup(s, seen) == IF s = <<>> THEN <<>>
                  ELSE IF Head(s) \in seen THEN Dedup(Tail(s), seen)
                  ELSE <<Head(s)>> \o Dedup(Tail(s), seen \cup {Head(s)})
Explode(ts) == Dedup(Flat(ts), {})

Owner(a) == IF a \in DOMAIN own THEN own[a] ELSE ""
AddrsOf(n) == {a \in DOMAIN own : own[a] = n}
Live(a) == Owner(a) # "" /\ Owner(a) \in on /\ a \in nicUp
\* the owner of a takes frames of class cls addressed to a: a router takes TCP / UDP for any of its addresses
\* (Router.check_send_frame_to_session_manager docstring), ICMP only for an enabled interface (RouterICMP.receive docstring)
Alive(a, cls) == Owner(a) # "" /\ Owner(a) \in on /\ (a \in nicUp \/ (kind[Owner(a)] = "router" /\ cls # <<"icmp", 0>>))
ClsOf(t) == IF t[2] = "" THEN <<"icmp", 0>> ELSE <<t[2], t[3]>>
CanSend(n) == n \in on /\ \E a \in AddrsOf(n) : a \in nicUp
ScannerReady(n) == CanSend(n) /\ "nmap" \in run[n]
InIf(s, a) == s \in DOMAIN ifnet /\ ifnet[s].lo <= a /\ a <= ifnet[s].hi       \* a lies in the subnet of interface s
OnLink(n, a) == \E s \in AddrsOf(n) : s \in nicUp /\ InIf(s, a)
\* the ports RUNNING software listens on: its own <<protocol, port>> and, for either transport protocol, the additional
\* listen_on_ports of its configuration
Open(n) == {swpp[s] : s \in run[n] \cap DOMAIN swpp}
           \cup {<<p, x[3]>> : p \in {"tcp", "udp"}, x \in {y \in lis : y[1] = n /\ y[2] \in run[n]}}
Gw(n) == IF n \in DOMAIN gw THEN gw[n] ELSE 0

\* frames of class cls (ICMP, or <<protocol, port>>) travel from node n to address a and back
PathModel(n, a, cls) ==
    /\ CanSend(n) /\ Alive(a, cls) /\ Owner(a) # n
    /\ IF kind[Owner(a)] = "router"
       THEN /\ cls \notin deny
            /\ \/ OnLink(n, a) /\ a \in nicUp                     \* the addressed interface is the one the frame comes in by
               \/ Gw(n) # 0 /\ Live(Gw(n)) /\ Owner(Gw(n)) = Owner(a) /\ OnLink(n, Gw(n))
       ELSE \/ OnLink(n, a)
            \/ /\ Gw(n) # 0 /\ Live(Gw(n)) /\ OnLink(n, Gw(n)) /\ kind[Owner(Gw(n))] = "router"
               /\ cls \notin deny /\ cls # ArpC
               /\ LET r == Owner(Gw(n))
                      t == Owner(a) IN
                  /\ \E e \in AddrsOf(r) : e \in nicUp /\ InIf(e, a)
                  /\ Gw(t) # 0 /\ Owner(Gw(t)) = r /\ Live(Gw(t)) /\ InIf(Gw(t), a)
\* is the answer to "does a answer n" fixed by this module's state?
Determined(n, a, cls) == routed \/ ~CanSend(n) \/ ~Alive(a, cls) \/ Owner(a) = n \/ (OnLink(n, a) /\ kind[Owner(a)] = "host")
Reach(n, a, cls, logged) == IF Determined(n, a, cls) THEN PathModel(n, a, cls) ELSE logged
\* what a ping of a by n must return / whether a probe of (a, p, q) by n must find the port open
PingExp(n, a, logged) == Reach(n, a, ICMPc, logged)
OpenExp(n, a, p, q, logged) ==
    /\ Reach(n, a, <<p, q>>, logged)
    /\ Owner(a) # "" /\ "nmap" \in run[Owner(a)] /\ <<p, q>> \in Open(Owner(a))

Triples(n, tg, pr, po) == {<<tg[i], pr[j], po[k]>> : i \in {x \in 1..Len(tg) : Owner(tg[x]) # n}, j \in 1..Len(pr), k \in 1..Len(po)}
NoCur == [a |-> 0, p |-> "", q |-> 0, seen |-> FALSE, ans |-> FALSE, resp |-> FALSE]
IdleScan == [kind |-> "none", via |-> "", n |-> "", ready |-> FALSE, ts |-> <<>>, tg |-> <<>>, pr |-> <<>>, po |-> <<>>,
             phase |-> "idle", pi |-> 0, live |-> <<>>, pt |-> <<>>, todo |-> {}, cur |-> NoCur, found |-> <<>>,
             pinged |-> <<>>, probed |-> <<>>, sent |-> 0]
NoLast == [kind |-> "none", via |-> "", n |-> "", ready |-> FALSE, ts |-> <<>>, tg |-> <<>>, pr |-> <<>>, po |-> <<>>, pt |-> <<>>,
           live |-> <<>>, found |-> <<>>, pinged |-> <<>>, probed |-> <<>>, sent |-> 0, ok |-> FALSE, res |-> <<>>]

NmapInit(kind0, gw0, inst0, own0, nets0, ifnet0, swpp0, lis0, deny0, routed0, on0, nic0, run0) ==
    /\ kind = kind0 /\ gw = gw0 /\ inst = inst0 /\ own = own0 /\ nets = nets0 /\ ifnet = ifnet0 /\ swpp = swpp0 /\ lis = lis0 /\ deny = deny0
    /\ routed = routed0
    /\ on = on0 /\ nicUp = nic0 /\ run = run0
    /\ scan = IdleScan /\ last = NoLast /\ act = <<"Init">>

------------------------------------------------------------------------------
\* entry of a scan: what was asked for, and whether this NMAP may act at all
ScanStart(n, k, via, ts, pr, po) ==
    /\ scan.phase = "idle" /\ n \in Nodes /\ k \in {"ping", "port", "recon"}
    /\ LET tg == Explode(ts) IN
       scan' = [IdleScan EXCEPT !.kind = k, !.via = via, !.n = n, !.ready = ScannerReady(n), !.ts = ts, !.tg = tg, !.pr = pr, !.po = po,
                                !.phase = IF k = "port" THEN "port" ELSE "ping",
                                !.pt = IF k = "port" THEN tg ELSE <<>>,
                                !.todo = IF k = "port" THEN Triples(n, tg, pr, po) ELSE {}]
    /\ act' = <<"ScanStart", n, k, via>>
    /\ UNCHANGED <<cvars, evars, last>>

\* the next address ping_scan may ping: the next of the exploded list, own addresses of the scanner may be passed over
PingSlot(a) == {j \in (scan.pi + 1)..Len(scan.tg) :
                    scan.tg[j] = a /\ \A i \in (scan.pi + 1)..(j - 1) : Owner(scan.tg[i]) = scan.n}
PingPhaseDone == scan.phase = "ping" /\ \A i \in (scan.pi + 1)..Len(scan.tg) : Owner(scan.tg[i]) = scan.n
\* one ICMP.ping call: res = its verdict, nreq = echo requests and nother = other frames the scanner put on the wire
Ping(a, res, nreq, nother) ==
    /\ scan.phase = "ping" /\ PingSlot(a) # {}
    /\ scan' = [scan EXCEPT !.pi = CHOOSE j \in PingSlot(a) : TRUE,
                            !.live = IF res THEN Append(@, a) ELSE @,
                            !.pinged = Append(@, a), !.sent = @ + nreq + nother]
    /\ act' = <<"Ping", a, res>>
    /\ UNCHANGED <<cvars, evars, last>>

\* network_service_recon hands the ping results to port_scan
PortPhase(tgs) ==
    /\ scan.kind = "recon" /\ scan.phase = "ping" /\ (scan.ready => PingPhaseDone)
    /\ LET pt == Explode(tgs) IN
       scan' = [scan EXCEPT !.phase = "port", !.pt = pt, !.todo = Triples(scan.n, pt, scan.pr, scan.po)]
    /\ act' = <<"PortPhase">>
    /\ UNCHANGED <<cvars, evars, last>>

Probe(a, p, q) ==
    /\ scan.phase = "port" /\ scan.cur = NoCur /\ <<a, p, q>> \in scan.todo
    /\ scan' = [scan EXCEPT !.cur = [a |-> a, p |-> p, q |-> q, seen |-> FALSE, ans |-> FALSE, resp |-> FALSE],
                            !.todo = @ \ {<<a, p, q>>}, !.probed = Append(@, <<a, p, q>>)]
    /\ act' = <<"Probe", a, p, q>>
    /\ UNCHANGED <<cvars, evars, last>>

\* the NMAP of node m handles the probe: it answers (yes) or stays silent
Answer(m, yes) ==
    /\ scan.phase = "port" /\ scan.cur # NoCur /\ ~scan.cur.seen
    /\ scan' = [scan EXCEPT !.cur.seen = TRUE, !.cur.ans = yes]
    /\ act' = <<"Answer", m, yes>>
    /\ UNCHANGED <<cvars, evars, last>>

\* the scanner's NMAP takes the response
Response(m) ==
    /\ scan.phase = "port" /\ scan.cur # NoCur /\ scan.cur.ans /\ ~scan.cur.resp /\ m = scan.n
    /\ scan' = [scan EXCEPT !.cur.resp = TRUE]
    /\ act' = <<"Response", m>>
    /\ UNCHANGED <<cvars, evars, last>>

ProbeEnd(a, p, q, open, nreq, nother) ==
    /\ scan.phase = "port" /\ scan.cur # NoCur /\ scan.cur.a = a /\ scan.cur.p = p /\ scan.cur.q = q
    /\ scan' = [scan EXCEPT !.cur = NoCur, !.found = IF open THEN Append(@, <<a, p, q>>) ELSE @, !.sent = @ + nreq + nother]
    /\ act' = <<"ProbeEnd", a, p, q, open>>
    /\ UNCHANGED <<cvars, evars, last>>

ScanFinished == \/ scan.kind = "ping" /\ PingPhaseDone
                \/ scan.phase = "port" /\ scan.todo = {} /\ scan.cur = NoCur
\* the call returns: ok = success (requests) / returned normally (API); res = what it reports, as <<address, protocol,
\* port>> (a ping scan reports <<address, "", 0>>)
ScanEnd(ok, res) ==
    /\ scan.phase # "idle" /\ (scan.ready => ScanFinished)
    /\ last' = [kind |-> scan.kind, via |-> scan.via, n |-> scan.n, ready |-> scan.ready, ts |-> scan.ts, tg |-> scan.tg, pr |-> scan.pr,
                po |-> scan.po, pt |-> scan.pt, live |-> scan.live, found |-> scan.found, pinged |-> scan.pinged,
                probed |-> scan.probed, sent |-> scan.sent, ok |-> ok, res |-> res]
    /\ scan' = IdleScan
    /\ act' = <<"ScanEnd", ok>>
    /\ UNCHANGED <<cvars, evars>>

------------------------------------------------------------------------------
\* the environment; st = [on, nic, run] the world after the change
EnvIs(st) == on' = st.on /\ nicUp' = st.nic /\ run' = st.run
PowerSt(n, up) == IF up THEN [on |-> on \cup {n}, nic |-> nicUp \cup AddrsOf(n), run |-> [run EXCEPT ![n] = inst[n]]]
                        ELSE [on |-> on \ {n}, nic |-> nicUp \ AddrsOf(n), run |-> [run EXCEPT ![n] = {}]]
NicSt(a, up) == [on |-> on, nic |-> IF up THEN nicUp \cup {a} ELSE nicUp \ {a}, run |-> run]
SwSt(n, s, up) == [on |-> on, nic |-> nicUp, run |-> [run EXCEPT ![n] = IF up THEN @ \cup {s} ELSE @ \ {s}]]
Env(name, st) ==
    /\ scan.phase = "idle"
    /\ EnvIs(st)
    /\ act' = <<name>>
    /\ UNCHANGED <<cvars, scan, last>>
Power(n, up, st) == n \in Nodes /\ Env("Power", st)
Nic(a, up, st) == a \in DOMAIN own /\ Env("Nic", st)
Sw(n, s, up, st) == n \in Nodes /\ Env("Sw", st)
EnvSet(st) == Env("EnvSet", st)

------------------------------------------------------------------------------
\* clauses over the last finished scan (the environment does not move during a scan)
Ended == act[1] = "ScanEnd"
AddrsSeq(res) == [i \in 1..Len(res) |-> res[i][1]]
NotOwn(n, s) == SelectSeq(s, LAMBDA a : Owner(a) # n)
RECURSIVE SelLive(_, _)
SelLive(n, s) == IF s = <<>> THEN <<>>
                 ELSE (IF Owner(Head(s)) # n /\ PathModel(n, Head(s), ICMPc) THEN <<Head(s)>> ELSE <<>>) \o SelLive(n, Tail(s))
\* position of a reported triple in the request: (address, protocol, port) indices
Key(t, tg, pr, po) == <<Idx(tg, t[1]), IF t[2] = "" THEN 0 ELSE Idx(pr, t[2]), IF t[3] = 0 THEN 0 ELSE Idx(po, t[3])>>
Before2(x, y) == x[1] < y[1] \/ (x[1] = y[1] /\ x[2] < y[2])
Before3(x, y) == Before2(x, y) \/ (x[1] = y[1] /\ x[2] = y[2] /\ x[3] < y[3])
Within(res, tg, pr, po) == \A i \in 1..Len(res) : res[i][1] \in SetOf(tg) /\ (res[i][2] = "" \/ res[i][2] \in SetOf(pr))
                                                  /\ (res[i][3] = 0 \/ res[i][3] \in SetOf(po))
\* addresses and protocols in request order (ports of one address and protocol: PortsOrdered)
AddrProtoOrdered(res, tg, pr, po) ==
    Within(res, tg, pr, po) =>
        \A i \in 1..(Len(res) - 1) : LET x == Key(res[i], tg, pr, po)
                                         y == Key(res[i + 1], tg, pr, po) IN
                                     Before2(x, y) \/ (x[1] = y[1] /\ x[2] = y[2])
PortsOrdered(res, tg, pr, po) ==
    Within(res, tg, pr, po) =>
        \A i \in 1..(Len(res) - 1) : LET x == Key(res[i], tg, pr, po)
                                         y == Key(res[i + 1], tg, pr, po) IN
                                     (x[1] = y[1] /\ x[2] = y[2]) => x[3] < y[3]
PortTargets(L) == IF L.kind = "recon" THEN SelLive(L.n, L.tg) ELSE L.tg

InvPingScanExact ==
    (Ended /\ last.kind = "ping" /\ last.ready /\ routed) => NotOwn(last.n, AddrsSeq(last.res)) = SelLive(last.n, last.tg)
InvNeverDeadAddress ==
    Ended => \A i \in 1..Len(last.res) : LET a == last.res[i][1] IN ~IsNetOrBcast(a, last.ts) /\ Owner(a) # "" /\ Alive(a, ClsOf(last.res[i]))
InvPortScanExact ==
    (Ended /\ last.kind \in {"port", "recon"} /\ last.ready /\ routed) =>
        SetOf(last.res) = {t \in Triples(last.n, PortTargets(last), last.pr, last.po) : OpenExp(last.n, t[1], t[2], t[3], FALSE)}
InvNothingForDeadTargets ==
    (Ended /\ last.kind \in {"port", "recon"}) =>
        \A i \in 1..Len(last.res) : LET t == last.res[i] IN
            Alive(t[1], ClsOf(t)) /\ CanSend(last.n) /\ (Determined(last.n, t[1], ClsOf(t)) => PathModel(last.n, t[1], ClsOf(t)))
InvReconScansOnlyLiveHosts == (Ended /\ last.kind = "recon" /\ last.ready) => last.pt = last.live
InvResultInRequestOrder ==
    Ended => /\ NoDup(last.res)
             /\ AddrProtoOrdered(last.res, IF last.kind = "ping" THEN last.tg ELSE last.pt, last.pr, last.po)
InvPortsInRequestOrder == Ended => PortsOrdered(last.res, IF last.kind = "ping" THEN last.tg ELSE last.pt, last.pr, last.po)
InvNotRunningReturnsNothing == (Ended /\ ~last.ready) => (last.res = <<>> /\ (last.via = "request" => ~last.ok))
InvRunningSucceeds == (Ended /\ last.ready /\ last.via = "request") => last.ok
InvNoTrafficUnlessRunning == (Ended /\ ~last.ready) => last.sent = 0
InvProbesBounded ==
    Ended => /\ NoDup(last.pinged) /\ SetOf(last.pinged) \subseteq SetOf(last.tg)
             /\ NoDup(last.probed) /\ SetOf(last.probed) \subseteq Triples(last.n, last.pt, last.pr, last.po)
\* what the message exchange found is what the state of the world says (ties the two levels of the model together)
InvFoundIsReported == (Ended /\ last.ready) =>
    IF last.kind = "ping" THEN AddrsSeq(last.res) = last.live ELSE last.res = last.found
\* a scan changes nothing it looks at
TargetsUntouched == [][scan.phase # "idle" => UNCHANGED evars]_nvars
ConfigNeverChanges == [][UNCHANGED cvars]_nvars
=============================================================================
