SPECIFICATION Spec
CONSTANTS
  Inst = {"A", "B"}
  Variant = "design"
  MaxEp = 3
  MaxLen = 3
  MaxWrites = 2
  LevelsUsed = {1, 2, 3, 4, 5}
  ShapesUsed = {"plain", "json", "tail"}
  First = "A"
  Refill = TRUE
  ProfilesUsed = {"on", "off", "files", "logs", "warn", "debug"}
CHECK_DEADLOCK FALSE
