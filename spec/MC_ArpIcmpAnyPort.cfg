SPECIFICATION Spec
CONSTANTS
  MaxStim = 2
  MaxPings = 2
  AsCoded = FALSE
  BadId = FALSE
  AnyPort = TRUE
  Layout = 3
  Pingers = {1, 2}
  Toggle = {2, 3}
INVARIANT ArpReplyOnlyByOwner
VIEW View
CHECK_DEADLOCK FALSE
