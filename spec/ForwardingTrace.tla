-------------------------- MODULE ForwardingTrace --------------------------
(* Trace validation of recorded frame walks and exchanges of real PrimAITE *)
(* networks against Forwarding.tla (batch idiom of LinkTrace.tla,          *)
(* DESIGN.md 4.4).                                                         *)
(*                                                                         *)
(* cfg = [mode, nodes]: nodes is the topology in the shape of              *)
(* Forwarding!topo (addresses = IPv4 address mod 2^30, prefix lengths - 2: *)
(* AddrBits = 30); mode = "frame": the trace is the life of ONE Frame      *)
(* object (routers and switches pass the same object on), from its first   *)
(* send_frame, in call order; mode = "exchange": the trace is one stimulus *)
(* (ping / request-reply exchange) with its outcome.                       *)
(*                                                                         *)
(* event = [ev, node, dst, tb, ta, acc, nh, kind, src, saddr, ok, perm, n] *)
(*   Emit      node sends a new frame to dst, ttl ta, layer-2 next hop =   *)
(*             the interface owning address nh (0: nobody / unresolved)    *)
(*   IfaceRecv an interface (NIC, router interface, switch port) of node   *)
(*             saw the frame: ttl tb before, ta after, acc = passed up     *)
(*   Forward   router node passed the frame to an outgoing interface       *)
(*             towards nh: ttl ta, acc = the interface sent it             *)
(*   Local     the node's session manager received the frame               *)
(*   Deliver   the node's software manager handed the payload to software  *)
(*   Drop      the node returned from handling the frame without Local /   *)
(*             Forward                                                     *)
(*   Exchange  kind from node src (address saddr) to address dst: ok = it  *)
(*             succeeded (n attempts); perm = every device on the path     *)
(*             permits it and the software involved is installed & running *)
(*   Raised / Hang   repository code raised / did not return in time       *)
EXTENDS Forwarding, TLC, TLCExt, Json, IOUtils

Traces == JsonDeserialize(IOEnv.TRACE_FILE)

VARIABLES tid, l
tvars == <<topo, dst, ttl, ttl0, origin, at, to, phase, swdone, path, tid, l>>

T == Traces[tid].ev
Cfg == Traces[tid].cfg

Moves(e) == e.ev \in {"IfaceRecv", "Forward"}
N == Len(topo)

Clauses(e) ==
    [ NoException |-> e.ev \notin {"Raised", "Hang"},
      DeliveredOnlyAtOwner |-> e.ev = "Deliver" => Owns(e.node, dst),
      TtlLowersAtEveryHop  |-> (Moves(e) /\ e.acc) => e.ta < ttl,
      TtlNeverRises        |-> (Moves(e) \/ e.ev = "Drop") => (e.ta <= ttl /\ e.tb <= ttl),
      ExhaustedIsDropped   |->
          /\ (Moves(e) /\ (e.ta < 1 \/ ttl < 1)) => ~e.acc
          /\ (e.ev \in {"Local", "Deliver"} /\ phase # "idle") => ttl >= 1,
      ForwardedViaBestRoute |->
          /\ e.ev = "Forward" => NextHopOK(e.node, dst, e.nh)
          /\ (e.ev = "Emit" /\ IsRouter(e.node)) => NextHopOK(e.node, e.dst, e.nh),
      HostsUseDefaultGatewayOffLink |->
          (e.ev = "Emit" /\ IsHost(e.node) /\ ~OnLink(e.node, e.dst)) =>
              (topo[e.node].gw # NoHop /\ e.nh = topo[e.node].gw),
      OnlyRoutersForward   |-> e.ev = "Forward" => IsRouter(e.node),
      AcceptedByNextHopOnly |-> (e.ev = "IfaceRecv" /\ e.acc /\ ~IsSwitch(e.node)) => Owns(e.node, to),
      PermittedExchangeSucceeds |->
          (e.ev = "Exchange" /\ e.perm
             /\ Reaches(e.src, e.dst, N)
             /\ \A o \in Owners(e.dst) : Reaches(o, e.saddr, N)) => e.ok
    ]
Failing(e) == {c \in DOMAIN Clauses(e) : ~Clauses(e)[c]}

Step(e) ==
    CASE e.ev = "Emit"      -> Emit(e.node, e.dst, e.ta, e.nh)
      [] e.ev = "IfaceRecv" -> IF IsSwitch(e.node) THEN SwitchHop(e.node, e.ta, e.acc)
                                                   ELSE RecvAtInterface(e.node, e.ta, e.acc)
      [] e.ev = "Forward"   -> RouterForward(e.node, e.nh, e.ta, e.acc)
      [] e.ev = "Local"     -> Local(e.node)
      [] e.ev = "Deliver"   -> Deliver(e.node)
      [] e.ev = "Drop"      -> Drop(e.node, e.ta)
      [] e.ev = "Exchange"  -> UNCHANGED fvars
      [] OTHER -> FALSE

TraceInit ==
    /\ tid \in 1..Len(Traces)
    /\ l = 1
    /\ FwdInit(Cfg.nodes)

TraceNext ==
    /\ l <= Len(T)
    /\ Failing(T[l]) = {}
    /\ Step(T[l])
    /\ l' = l + 1
    /\ UNCHANGED tid

TraceSpec == TraceInit /\ [][TraceNext]_tvars

Seen == TLCGet(tid)
Record ==
    IF l > Seen.pos
    THEN TLCSet(tid, [pos |-> l,
                      fail |-> IF l <= Len(T) THEN Failing(T[l]) ELSE {},
                      st |-> [dst |-> dst, ttl |-> ttl, at |-> at, to |-> to, phase |-> phase, path |-> path]])
    ELSE TRUE
InitRegs == \A i \in 1..Len(Traces) : TLCSet(i, [pos |-> 0, fail |-> {}, st |-> <<>>])
ASSUME InitRegs

Report ==
    \A i \in 1..Len(Traces) :
        LET r == TLCGet(i) IN
        /\ PrintT(<<"TRACE", i, r.pos, Len(Traces[i].ev)>>)
        /\ (r.pos = Len(Traces[i].ev) + 1 \/ PrintT(<<"STUCK", i, r.pos, r.fail, r.st>>))
=============================================================================
