SPECIFICATION Spec
CONSTANTS
  MaxSteps = 3
  MaxNest = 1
  Rich = FALSE
  Variant = "wap_no_inbound"
INVARIANT CountedOncePerFrame
VIEW View
CHECK_DEADLOCK FALSE
