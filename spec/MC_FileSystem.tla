--------------------------- MODULE MC_FileSystem ---------------------------
(* Exhaustive: root + 2 folder names, 2 file names, every operation on      *)
(* existing, deleted and never-created targets, bounded by the number of    *)
(* items ever created and by depth.                                         *)
EXTENDS FileSystem, TLC

CONSTANTS FolderNames, FileNames, MaxItems, MaxDepth

\* step counter: makes refused operations (which change nothing) visible as steps of a behaviour;
\* hidden by VIEW in the exhaustive configuration
VARIABLE n
mvars == <<fvars, n>>
View == fvars

Init == n = 0 /\ FsInit(<<[name |-> "root", del |-> FALSE]>>, <<>>)

AllFolders == FolderNames \cup {"root"}
Step == n < MaxDepth /\ n' = n + 1
Room == Len(folders) + Len(files) < MaxItems

MCreateFile(fo, fi) == Step /\ Room /\ \E o \in CreateFileNext(fo, fi) :
            CreateFile(fo, fi, o.ok, o.fo, o.fi, IF Len(o.fi) > Len(files) THEN ncreate + 1 ELSE ncreate)
MCreateFolder(fo) == Step /\ Room /\ \E o \in CreateFolderNext(fo) : CreateFolder(fo, o.ok, o.fo, o.fi)
MDeleteFile(fo, fi)  == Step /\ \E o \in DeleteFileNext(fo, fi) :
            DeleteFile(fo, fi, o.ok, o.fo, o.fi, IF o.fi # files THEN ndelete + 1 ELSE ndelete)
MDeleteFolder(fo)  == Step /\ \E o \in DeleteFolderNext(fo) : DeleteFolder(fo, o.ok, o.fo, o.fi)
MRestoreFile(fo, fi)  == Step /\ \E o \in RestoreFileNext(fo, fi) : RestoreFile(fo, fi, o.ok, o.fo, o.fi)
MRestoreFolder(fo)  == Step /\ \E o \in RestoreFolderNext(fo) : RestoreFolder(fo, o.ok, o.fo, o.fi)
MPreTick  == Step /\ PreTick(folders, files, 0, 0)
\* (design: a tick that leaves the node not ON moves nothing - Node.apply_timestep; the trace specification does not demand it, C12 does)
MTick  == Step /\ \E o \in TickNext, b \in {on, TRUE} : (~b => o.fi = files) /\ Tick(o.fo, o.fi, b)
MPower == Step /\ Power(folders, files, FALSE)   \* (shut-down, or a start-up that has not completed yet)

Ops ==
    \/ \E fo \in AllFolders, fi \in FileNames : MCreateFile(fo, fi)
    \/ \E fo \in FolderNames : MCreateFolder(fo)
    \/ \E fo \in AllFolders, fi \in FileNames : MDeleteFile(fo, fi)
    \/ \E fo \in AllFolders : MDeleteFolder(fo)
    \/ \E fo \in AllFolders, fi \in FileNames : MRestoreFile(fo, fi)
    \/ \E fo \in AllFolders : MRestoreFolder(fo)
    \/ MPreTick
    \/ MTick
    \/ MPower
Next == Ops

Spec == Init /\ [][Next]_mvars

\* created items never vanish or change identity
PAppendOnly == [][AppendOnly(folders', files')]_mvars
\* a deleted item only comes back through a restore, a live one only goes through a delete
RootStays == ~folders[1].del
\* while the node is not ON the structure does not move
PFrozenWhenOff == [][(~on /\ ~on') => (folders' = folders /\ files' = files)]_mvars
=============================================================================
