---------------------------- MODULE Apa_Software ----------------------------
(***************************************************************************)
(* Unbounded argument for the DESIGN of Software.tla (property C13),       *)
(* checked with Apalache: an inductive invariant over ALL restart and      *)
(* install durations (MC_Software sweeps small ones).  One service and one *)
(* application on one node; same acceptance table, same completion window  *)
(* (the k-th tick may complete a timed operation iff k >= d, and must by   *)
(* k = d + 1 counted over ticks with the node ON), same power rules.       *)
(* Extra evidence only (DESIGN.md section 8).                              *)
(*   apalache-mc check --init=Init --inv=IndInv --length=0 Apa_Software.tla    *)
(*   apalache-mc check --init=IndInit --inv=IndInv --length=1 Apa_Software.tla *)
(***************************************************************************)
EXTENDS Integers, Apalache

SvcStates == {"RUNNING", "STOPPED", "PAUSED", "DISABLED", "INSTALLING", "RESTARTING"}
AppStates == {"RUNNING", "CLOSED", "INSTALLING", "ABSENT"}

VARIABLES
    \* @type: Int;
    restartDur,
    \* @type: Int;
    installDur,
    \* @type: Bool;
    nodeOn,
    \* @type: Str;
    sop,
    \* @type: Str;
    aop,
    \* @type: Int;
    sage,
    \* @type: Int;
    stot,
    \* @type: Int;
    aage,
    \* @type: Int;
    atot

Min(a, b) == IF a <= b THEN a ELSE b

Init ==
    /\ restartDur \in Nat /\ installDur \in Nat
    /\ nodeOn = TRUE /\ sop = "RUNNING" /\ aop = "ABSENT"
    /\ sage = 0 /\ stot = 0 /\ aage = 0 /\ atot = 0

SvcSource(verb) ==
    CASE verb = "start" -> {"STOPPED"}
      [] verb \in {"stop", "pause", "restart", "scan", "fix"} -> {"RUNNING"}
      [] verb = "resume" -> {"PAUSED"}
      [] verb = "enable" -> {"DISABLED"}
      [] OTHER -> SvcStates                       \* disable
SvcTargets(verb) ==
    CASE verb = "start"   -> {"RUNNING"}
      [] verb = "stop"    -> {"STOPPED"}
      [] verb = "pause"   -> {"PAUSED"}
      [] verb = "resume"  -> {"RUNNING"}
      [] verb = "restart" -> IF restartDur = 0 THEN {"RESTARTING", "RUNNING"} ELSE {"RESTARTING"}
      [] verb = "disable" -> {"DISABLED"}
      [] verb = "enable"  -> {"STOPPED", "RUNNING"}
      [] OTHER            -> {sop}                \* scan, fix

\* timers restart from 0 whenever the state changes
SvcTo(t) == sop' = t /\ sage' = (IF t = sop THEN sage ELSE 0) /\ stot' = (IF t = sop THEN stot ELSE 0)
AppTo(t) == aop' = t /\ aage' = (IF t = aop THEN aage ELSE 0) /\ atot' = (IF t = aop THEN atot ELSE 0)

ReqSvc ==
    \E verb \in {"start", "stop", "pause", "restart", "scan", "fix", "resume", "enable", "disable"} :
        /\ IF nodeOn /\ sop \in SvcSource(verb)
           THEN \E t \in SvcTargets(verb) : SvcTo(t)
           ELSE SvcTo(sop)
        /\ UNCHANGED <<restartDur, installDur, nodeOn, aop, aage, atot>>

ReqApp ==
    \E verb \in {"close", "scan", "fix", "execute", "install", "uninstall"} :
        /\ CASE verb = "close" -> AppTo(IF nodeOn /\ aop = "RUNNING" THEN "CLOSED" ELSE aop)
             [] verb = "execute" ->
                    IF nodeOn /\ aop = "CLOSED" THEN \E t \in {"CLOSED", "RUNNING"} : AppTo(t) ELSE AppTo(aop)
             [] verb = "install" ->
                    IF nodeOn /\ aop = "ABSENT"
                    THEN \E t \in (IF installDur = 0 THEN {"INSTALLING", "RUNNING"} ELSE {"INSTALLING"}) : AppTo(t)
                    ELSE AppTo(aop)
             [] verb = "uninstall" -> AppTo(IF nodeOn /\ aop # "ABSENT" THEN "ABSENT" ELSE aop)
             [] OTHER -> AppTo(aop)
        /\ UNCHANGED <<restartDur, installDur, nodeOn, sop, sage, stot>>

\* the completion window of a timed operation
SvcTick ==
    IF nodeOn /\ sop = "RESTARTING"
    THEN \/ stot + 1 >= restartDur /\ sop' = "RUNNING" /\ sage' = 0 /\ stot' = 0
         \/ sage < restartDur /\ sop' = sop /\ sage' = sage + 1 /\ stot' = Min(stot + 1, restartDur)
    ELSE /\ sop' = sop
         /\ sage' = (IF sop = "RESTARTING" THEN sage ELSE 0)
         /\ stot' = (IF sop = "RESTARTING" THEN Min(stot + 1, restartDur) ELSE 0)
AppTick ==
    IF nodeOn /\ aop = "INSTALLING"
    THEN \/ atot + 1 >= installDur /\ aop' = "RUNNING" /\ aage' = 0 /\ atot' = 0
         \/ aage < installDur /\ aop' = aop /\ aage' = aage + 1 /\ atot' = Min(atot + 1, installDur)
    ELSE /\ aop' = aop
         /\ aage' = (IF aop = "INSTALLING" THEN aage ELSE 0)
         /\ atot' = (IF aop = "INSTALLING" THEN Min(atot + 1, installDur) ELSE 0)
Tick == SvcTick /\ AppTick /\ UNCHANGED <<restartDur, installDur, nodeOn>>

SvcOff == CASE sop = "RUNNING" -> {"STOPPED"}
            [] sop = "PAUSED" -> {"PAUSED", "STOPPED"}
            [] sop = "RESTARTING" -> {"RESTARTING", "STOPPED"}
            [] OTHER -> {sop}
AppOff == CASE aop = "RUNNING" -> {"CLOSED"}
            [] aop = "INSTALLING" -> {"INSTALLING", "CLOSED"}
            [] OTHER -> {aop}
Power ==
    \/ /\ nodeOn /\ nodeOn' = FALSE
       /\ \E t \in SvcOff : SvcTo(t)
       /\ \E t \in AppOff : AppTo(t)
       /\ UNCHANGED <<restartDur, installDur>>
    \/ /\ ~nodeOn /\ nodeOn' = TRUE
       /\ \E t \in (IF sop = "STOPPED" THEN {"STOPPED", "RUNNING"} ELSE {sop}) : SvcTo(t)
       /\ \E t \in (IF aop = "CLOSED" THEN {"CLOSED", "RUNNING"} ELSE {aop}) : AppTo(t)
       /\ UNCHANGED <<restartDur, installDur>>

Next == ReqSvc \/ ReqApp \/ Tick \/ Power

IndInv ==
    /\ restartDur >= 0 /\ installDur >= 0
    /\ sop \in SvcStates /\ aop \in AppStates
    /\ sop # "INSTALLING"                              \* a service is never INSTALLING (no edge leads there)
    /\ 0 <= sage /\ sage <= stot /\ stot <= restartDur  \* C13: timers inside the window
    /\ 0 <= aage /\ aage <= atot /\ atot <= installDur
    /\ sop # "RESTARTING" => stot = 0
    /\ aop # "INSTALLING" => atot = 0
    /\ ~nodeOn => (sop # "RUNNING" /\ aop # "RUNNING")  \* C13: nothing runs on a node that is off
    \* a tick is always possible: the window of a pending operation is never empty (no overdue operation)
    /\ (sop = "RESTARTING" => (stot + 1 >= restartDur \/ sage < restartDur))
    /\ (aop = "INSTALLING" => (atot + 1 >= installDur \/ aage < installDur))

IndInit ==
    /\ restartDur = Gen(1) /\ installDur = Gen(1) /\ nodeOn = Gen(1) /\ sop = Gen(1) /\ aop = Gen(1)
    /\ sage = Gen(1) /\ stot = Gen(1) /\ aage = Gen(1) /\ atot = Gen(1)
    /\ IndInv
=============================================================================
