-------------------------------- MODULE Acl --------------------------------
(***************************************************************************)
(* A packet filter (access control list): a fixed number of positions,     *)
(* each empty or holding one rule; an implicit action; one hit counter per *)
(* rule and one for the implicit rule.  Property C07.                      *)
(*                                                                         *)
(* Vocabulary.  A rule has an action and five match fields; a field may be *)
(* unspecified (AnyP / AnyN), an address field may carry a wildcard mask    *)
(* (bits set in the mask are ignored).  A packet has a protocol, two       *)
(* addresses and - for tcp/udp - two ports (ICMP packets carry NoPort).    *)
(* Addresses, masks and ports are small naturals; the harness embeds them  *)
(* into IPv4 addresses / wildcards / real port numbers.                    *)
(*                                                                         *)
(* `npos' and `implicit' are configuration variables (never change) so     *)
(* that one TLC run sweeps both implicit actions and one trace batch mixes *)
(* lists of different sizes (3 .. the real 24).                            *)
(*                                                                         *)
(* Verdict is DECLARATIVE: the action of the lowest position in the set of *)
(* positions whose rule matches, else the implicit action.  No scan.       *)
(***************************************************************************)
EXTENDS Integers, Sequences, FiniteSets, Bitwise

AnyP    == "any"   \* unspecified protocol
AnyN   == -1      \* unspecified address / port; "no wildcard mask"
NoPort == -1      \* the port of a packet that has no ports (ICMP)
Implicit == -1    \* the "position" of the implicit rule

NoRule == [action |-> "none", proto |-> AnyP, src |-> AnyN, smask |-> AnyN,
           dst |-> AnyN, dmask |-> AnyN, sport |-> AnyN, dport |-> AnyN]

VARIABLES
    npos,      \* number of positions (configuration)
    implicit,  \* "permit" | "deny" (configuration)
    acl,       \* [0..npos-1 -> rule or NoRule]
    hits,      \* [0..npos-1 -> Nat]  hit counter of the rule at a position (0 when empty)
    ihits      \* hit counter of the implicit rule

avars == <<npos, implicit, acl, hits, ihits>>

Pos == 0 .. npos - 1

-----------------------------------------------------------------------------
(* Matching *)

\* a and b agree on every bit that is not set in the wildcard mask wc
\* (explicit arithmetic, lowest bit first)
RECURSIVE MaskedEq(_, _, _)
MaskedEq(a, b, wc) ==
    IF a = b THEN TRUE
    ELSE (wc % 2 = 1 \/ a % 2 = b % 2) /\ MaskedEq(a \div 2, b \div 2, wc \div 2)

\* two other formulations, used only to cross-check MaskedEq (ASSUME in MC_Acl):
\* with the Bitwise module,  (a & ~wc) = (b & ~wc)  where  x & ~wc  =  x - (x & wc)
MaskedEqAnd(a, b, wc) == a - (a & wc) = b - (b & wc)
\* and bit by bit over a given width
BitAt(x, k) == (x \div (2 ^ k)) % 2
MaskedEqBits(a, b, wc, width) ==
    \A k \in 0 .. width - 1 : BitAt(wc, k) = 0 => BitAt(a, k) = BitAt(b, k)

\* (values below AnyN - the harness's "not an address of this trace's embedding" - match nothing)
AddrMatches(base, mask, a) ==
    \/ base = AnyN                              \* unspecified: anything (a mask alone says nothing)
    \/ /\ base # AnyN /\ mask = AnyN /\ a = base   \* exact
    \/ /\ base >= 0 /\ mask >= 0 /\ a >= 0 /\ MaskedEq(a, base, mask)

PortMatches(rp, pp)  == rp = AnyN \/ rp = pp
ProtoMatches(rq, pq) == rq = AnyP \/ rq = pq

\* (a conjunction: the cheap comparisons come first only to let TLC fail fast)
Matches(r, p) ==
    /\ ProtoMatches(r.proto, p.proto)
    /\ PortMatches(r.sport, p.sport)
    /\ PortMatches(r.dport, p.dport)
    /\ AddrMatches(r.src, r.smask, p.src)
    /\ AddrMatches(r.dst, r.dmask, p.dst)

MatchingPositions(a, p) == {i \in DOMAIN a : a[i] # NoRule /\ Matches(a[i], p)}

\* the deciding rule: the lowest matching position, else the implicit rule
Decider(a, p) ==
    LET M == MatchingPositions(a, p)
    IN  IF M = {} THEN Implicit ELSE CHOOSE i \in M : \A j \in M : i <= j

Verdict(a, imp, p) ==
    LET d == Decider(a, p) IN IF d = Implicit THEN imp ELSE a[d].action

-----------------------------------------------------------------------------
(* Actions.  Positions are inside the list (out-of-range positions are     *)
(* outside the statement).                                                 *)

AclInit(n, imp, a0, h0, ih0) ==
    /\ npos = n /\ implicit = imp
    /\ acl = a0 /\ hits = h0 /\ ihits = ih0

Empty(n) == [i \in 0 .. n - 1 |-> NoRule]
Zero(n)  == [i \in 0 .. n - 1 |-> 0]

(* A rule is put at position i (overwriting).  The statement does not say  *)
(* where the counter of a new rule starts: h is the logged value (the      *)
(* design passes 0).                                                       *)
Add(i, r, h) ==
    /\ i \in Pos /\ r # NoRule
    /\ acl'  = [acl  EXCEPT ![i] = r]
    /\ hits' = [hits EXCEPT ![i] = h]
    /\ UNCHANGED <<npos, implicit, ihits>>

Remove(i) ==
    /\ i \in Pos
    /\ acl'  = [acl  EXCEPT ![i] = NoRule]
    /\ hits' = [hits EXCEPT ![i] = 0]
    /\ UNCHANGED <<npos, implicit, ihits>>

(* Several rules put at distinct positions at once (scenario loading).     *)
(* es is a sequence of [pos, r, h].                                        *)
Load(es) ==
    /\ \A k \in DOMAIN es : es[k].pos \in Pos /\ es[k].r # NoRule
    /\ \A k, m \in DOMAIN es : k # m => es[k].pos # es[m].pos
    /\ acl'  = [i \in Pos |-> IF \E k \in DOMAIN es : es[k].pos = i
                              THEN es[CHOOSE k \in DOMAIN es : es[k].pos = i].r ELSE acl[i]]
    /\ hits' = [i \in Pos |-> IF \E k \in DOMAIN es : es[k].pos = i
                              THEN es[CHOOSE k \in DOMAIN es : es[k].pos = i].h ELSE hits[i]]
    /\ UNCHANGED <<npos, implicit, ihits>>

(* One verdict: exactly the deciding rule's counter goes up by one.        *)
HitsAfter(p)  == [i \in Pos |-> IF i = Decider(acl, p) THEN hits[i] + 1 ELSE hits[i]]
IHitsAfter(p) == IF Decider(acl, p) = Implicit THEN ihits + 1 ELSE ihits

Check(p) ==
    /\ hits'  = HitsAfter(p)
    /\ ihits' = IHitsAfter(p)
    /\ UNCHANGED <<npos, implicit, acl>>

(* Something happened to ANOTHER list (an add / remove / verdict there):   *)
(* this list is not concerned.                                             *)
Elsewhere == UNCHANGED avars

-----------------------------------------------------------------------------
(* C07 clauses, as predicates of the current state and a proposed          *)
(* post-table a2 / counters h2, ih2 / verdict (permit as a boolean).       *)

\* the verdict for p is that of the lowest-positioned matching rule, else the implicit action
VerdictIsLowestMatch(p, permit) == permit = (Verdict(acl, implicit, p) = "permit")

\* adding / removing at i changes only position i (rules and counters; the implicit counter too)
OnlyPositions(I, a2, h2, ih2) ==
    /\ DOMAIN a2 = Pos /\ DOMAIN h2 = Pos
    /\ \A j \in Pos \ I : a2[j] = acl[j] /\ h2[j] = hits[j]
    /\ ih2 = ihits

\* a verdict increments the counter of exactly the deciding rule
CountsExactlyDecider(p, h2, ih2) == h2 = HitsAfter(p) /\ ih2 = IHitsAfter(p)

(* state invariants *)
TypeOK ==
    /\ npos \in Nat /\ implicit \in {"permit", "deny"}
    /\ DOMAIN acl = Pos /\ DOMAIN hits = Pos
    /\ \A i \in Pos : acl[i] = NoRule \/ acl[i].action \in {"permit", "deny"}
    /\ \A i \in Pos : hits[i] \in Nat
    /\ ihits \in Nat
NoCounterWithoutRule == \A i \in Pos : acl[i] = NoRule => hits[i] = 0
=============================================================================
