SPECIFICATION Spec
CONSTANTS
  PScan = {100}
  PAtk = {100}
  PDos = {100}
  DosMaxs = {2}
  DosInts = {100}
  Payloads = {"DELETE"}
  Clients = {TRUE}
  Tgts = {TRUE}
  Repeats = {TRUE}
  Present = {"dm", "rw", "dbc"}
  MaxStim = 99
  AsCoded = "client"
PROPERTY DbOnlyBySuccess
VIEW View
CHECK_DEADLOCK FALSE
