SPECIFICATION SafetySpec
CONSTANTS
  FixDurs = {0,1,2,3}
  ScanDurs = {0,1,2,3}
  RestDurs = {0,1,2,3}
  NodeDurs = {0,1,2,3}
  UseSw = TRUE
  FsOps = {"FileScan","FileCorrupt","FileRepair","FileRestore","SqlDelete","SqlEncrypt","FolderCorrupt","FolderRepair","FolderScan","FolderRestore"}
  AllowRestart = TRUE
  InitSw = {"GOOD"}
INVARIANT InvNeverOverdue
INVARIANT InvFixClock
INVARIANT InvTypes
CHECK_DEADLOCK TRUE
