-------------------------- MODULE MC_RewardGraph --------------------------
(* Exhaustive model of RewardGraph: every digraph (self loops included) on   *)
(* N agents x every declaration order (x every neighbour iteration order     *)
(* when AllNord).  The loader is the transcribed code (CodeHasCycle,         *)
(* EvalOrderN); the invariants compare it with the declarative requirements. *)
(* Accepted scenarios then take up to MaxSteps steps with every choice of    *)
(* own rewards, evaluated the way update_agents does (sequentially in        *)
(* `order', reading the sharee's reward as it is at that moment).            *)
(*                                                                           *)
(* Variant "decl" evaluates in declaration order instead of the loader's     *)
(* order: TLC refutes CurIsSolution for it (MC_RewardGraphDeclOrder.cfg) -   *)
(* a documented counterexample used as a non-vacuity test of the step        *)
(* clauses, not a model of the code.                                         *)
(* Gen_RewardGraph*.cfg (AcyclicOnly) are the generator configurations used  *)
(* with `tlc -simulate': behaviours = (declaration order, acyclic graph,     *)
(* sequence of own-reward vectors) that the harness replays on real agents.  *)
EXTENDS RewardGraph, TLC

CONSTANTS N, AllNord, OwnNeg, OwnPos, MaxSteps, Variant, AcyclicOnly

OwnVals == (0 - OwnNeg)..OwnPos   \* the cfg syntax has no negative literals

VARIABLE nord   \* iteration order of the neighbour sets (configuration)

mcvars == <<decl, g, wt, phase, accepted, order, own, cur, tot, sum, n, nord>>

V == 1..N
Perms == {s \in [1..N -> V] : Range(s) = V}
Ident == [i \in 1..N |-> i]
W(e) == 1 + ((e[1] + e[2]) % 2)     \* weights 1 and 2

Init ==
    \E d \in Perms, gg \in SUBSET (V \X V), no \in (IF AllNord THEN Perms ELSE {Ident}) :
        /\ (AcyclicOnly => ~HasCycleDecl(V, gg))   \* generator cfgs (Gen_*.cfg) only
        /\ RInit(d, gg, [e \in gg |-> W(e)])
        /\ nord = no

MCLoad ==
    /\ Load(~CodeHasCycle(decl, nord, g), EvalOrderN(decl, nord, g))
    /\ UNCHANGED nord

MCStep ==
    /\ n < MaxSteps
    /\ \E ownv \in [V -> OwnVals] :
          LET ord == IF Variant = "design" THEN order ELSE decl
              c == EvalIn(ord, 1, ownv, cur)
          IN  StepR(ownv, c, [a \in V |-> tot[a] + c[a]])
    /\ UNCHANGED nord

Next == MCLoad \/ MCStep

Spec == Init /\ [][Next]_mcvars

\* Once steps are taken, declaration and neighbour order matter only through `order' (variant
\* "design"): states that differ in nothing else are explored once.  (Not used by the "decl" cfg.)
MCView == IF n = 0 THEN <<mcvars>> ELSE <<g, wt, order, own, cur, tot, sum, n>>

\* The loader's clauses talk about variables that no step changes (ConfigFrozen), so it is
\* enough - and much cheaper - to evaluate them on the states before the first step.
ConfigFrozen == [][phase # "new" => UNCHANGED <<decl, g, wt, accepted, order, nord>>]_mcvars
MC_LoadIffAcyclic == n = 0 => LoadIffAcyclic
MC_OrderDepsFirst == n = 0 => OrderDepsFirst
MC_TCAgrees == phase = "new" => (HasCycleTC(V, g) <=> HasCycleDecl(V, g))
\* the order is computed once, from the configuration only
MC_OrderIsEvalOrder == (n = 0 /\ phase = "run") => order = EvalOrderN(decl, nord, g)
=============================================================================
