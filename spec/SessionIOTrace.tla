--------------------------- MODULE SessionIOTrace ---------------------------
(* Trace validation of recorded runs of real PrimAITE environments against SessionIO.tla (batch idiom of         *)
(* LinkTrace.tla).  A trace is one process: up to two environments ("A", "B"), cfg.opt = their io_settings.      *)
(*                                                                                                                *)
(* event (every event has every field; unused ones carry 0 / FALSE / "" / <<>>):                                  *)
(*   ev    "Construct" | "Step" | "Reset" | "Close"   one per call of the environment, logged at its return       *)
(*         "SysWrite" | "PcapWrite" | "AgentWrite"    the writer calls made since the previous event, one event   *)
(*                                                    per (environment, level / direction), n calls               *)
(*         "Raised"                                   an exception came out of the call named in `what'           *)
(*   i     the environment                                                                                        *)
(*   writers:  lvl (1..5), dir ("inb" | "outb"), n calls, nj of them with a JSON-shaped message and ntail with a  *)
(*             message that only starts with { or only ends with } (SysWrite), tt of them with                   *)
(*             to_terminal=True, lines = records of that level / direction found afterwards in the log files of   *)
(*             environment i's nodes / agents under i's session directory, term = lines printed by these calls    *)
(*   hooks:    items  (Step) what every agent's history got: <<[ag, ts, act, par, st, dat], ...>>                 *)
(*             hfull  (Reset, Close) the agents' histories read before the call, one `items' per step             *)
(*             nw     calls of PrimaiteIO.write_agent_log during the hook                                         *)
(*             act, rew  (Step) the action given and the reward returned (x 1000)                                 *)
(*             mhas, mep, mstep, mact, mrew, mstate  (Step) the step-metadata file of this step, read back        *)
(*             files  every agent-actions file of every environment built so far, read back:                      *)
(*                    <<[i, ep, hdr (entries carry this episode number and their step number), steps], ...>>       *)
(*             metas  every step-metadata file: <<[i, ep, step], ...>>                                            *)
(*             stray  files in a session directory that are in no documented place; outside = new files under the *)
(*                    user's home that are in no session directory                                                *)
(*             nsysf, npcapf, nagtf  (Close) log files of environment i of each kind                              *)
EXTENDS SessionIO, TLCExt, Json, IOUtils

Traces == JsonDeserialize(IOEnv.TRACE_FILE)

VARIABLES tid, l
tvars == <<iovars, tid, l>>

T == Traces[tid].ev
Cfg == Traces[tid].cfg

IsHook(e) == e.ev \in {"Construct", "Step", "Reset", "Close"}
IsWriter(e) == e.ev \in {"SysWrite", "PcapWrite", "AgentWrite"}
Ends(e) == e.ev \in {"Reset", "Close"}
Idx(s) == 1..Len(s)

\* the agent-actions files / metadata files of environment j as the event shows them
FileEps(e, j) == {e.files[x].ep : x \in {y \in Idx(e.files) : e.files[y].i = j}}
FileOf(e, j, k) == e.files[CHOOSE x \in Idx(e.files) : e.files[x].i = j /\ e.files[x].ep = k]
MetaView(e, j) == {<<e.metas[x].ep, e.metas[x].step>> : x \in {y \in Idx(e.metas) : e.metas[y].i = j}}
\* ... and as the contract wants them after this event
ExpFileEps(e, j) == IF Ends(e) /\ j = e.i /\ opt[j].acts THEN DOMAIN afile[j] \cup {ep[j]} ELSE DOMAIN afile[j]
ExpMeta(e, j) == IF e.ev = "Step" /\ j = e.i /\ opt[j].meta THEN meta[j] \cup {StepId(j)} ELSE meta[j]

Clauses(e) ==
    LET i == e.i
        o == opt[e.i]
    IN
    [ NoException |-> e.ev # "Raised",
      \* (1) agent actions
      EpisodeFileWrittenOnce |-> IsHook(e) => e.nw = (IF Ends(e) /\ o.acts THEN 1 ELSE 0),
      HistoryAsStepped |-> Ends(e) => e.hfull = hist[i],
      EpisodeFileHoldsHistory |-> (Ends(e) /\ o.acts) =>
            /\ ep[i] \in FileEps(e, i)
            /\ FileOf(e, i, ep[i]).hdr
            /\ FileOf(e, i, ep[i]).steps = hist[i],
      NoActionsFileWhenOff |-> IsHook(e) => \A j \in Inst : ~opt[j].acts => FileEps(e, j) = {},
      FinishedEpisodeFilesKept |-> IsHook(e) => \A j \in Inst : \A k \in DOMAIN afile[j] :
            k \in FileEps(e, j) /\ FileOf(e, j, k).hdr /\ FileOf(e, j, k).steps = afile[j][k],
      NoUnexpectedActionsFile |-> IsHook(e) => \A j \in Inst : FileEps(e, j) \subseteq ExpFileEps(e, j),
      \* (2) step metadata
      StepMetadataIffOn |-> IsHook(e) => \A j \in Inst : MetaView(e, j) = ExpMeta(e, j),
      MetadataFields |-> (e.ev = "Step" /\ o.meta) =>
            e.mhas /\ e.mep = ep[i] /\ e.mstep = Len(hist[i]) /\ e.mact = e.act /\ e.mstate,
      MetadataReward |-> (e.ev = "Step" /\ o.meta /\ e.mhas) => e.mrew = e.rew,
      \* (3) logs, by the options of the environment whose component writes
      SysLogWrittenIffOn |-> e.ev = "SysWrite" =>
            e.lines = sysL[i][e.lvl] + (IF SysToFile(o, e.lvl) THEN e.n - e.nj ELSE 0),
      SysLogTerminalIffOn |-> e.ev = "SysWrite" => e.term = SysToTerm(o, e.lvl, e.n, e.tt),
      PcapWrittenIffOn |-> e.ev = "PcapWrite" => e.lines = pcapL[i][e.dir] + (IF o.pcap THEN e.n ELSE 0),
      AgentLogWrittenIffOn |-> e.ev = "AgentWrite" =>
            e.lines = agtL[i][e.lvl] + (IF AgtToFile(o, e.lvl) THEN e.n ELSE 0),
      AgentLogTerminalIffOn |-> e.ev = "AgentWrite" => e.term = AgtToTerm(o, e.lvl, e.n, e.tt),
      NoSysLogFilesWhenOff |-> (e.ev = "Close" /\ ~o.sys) => e.nsysf = 0,
      NoPcapFilesWhenOff |-> (e.ev = "Close" /\ ~o.pcap) => e.npcapf = 0,
      NoAgentLogFilesWhenOff |-> (e.ev = "Close" /\ ~o.agt) => e.nagtf = 0,
      \* (4) layout
      LayoutAsDocumented |-> IsHook(e) => e.stray = 0,
      NothingOutsideSession |-> IsHook(e) => e.outside = 0,
      \* binding: a field that an event kind does not use carries its neutral value
      FieldsAsDeclared |->
            /\ e.i \in Inst
            /\ (e.ev # "Raised") = (e.what = "")
            /\ ~IsWriter(e) => e.lvl = 0 /\ e.dir = "" /\ e.n = 0 /\ e.tt = 0 /\ e.lines = 0 /\ e.term = 0
            /\ e.ev # "SysWrite" => e.nj = 0 /\ e.ntail = 0
            /\ e.ev = "SysWrite" => e.dir = "" /\ e.tt <= e.n /\ e.nj + e.ntail <= e.n
            /\ e.ev = "AgentWrite" => e.dir = "" /\ e.tt <= e.n
            /\ e.ev = "PcapWrite" => e.lvl = 0 /\ e.tt = 0 /\ e.term = 0
            /\ ~IsHook(e) => e.nw = 0 /\ e.files = <<>> /\ e.metas = <<>> /\ e.stray = 0 /\ e.outside = 0
            /\ e.ev # "Step" => e.items = <<>> /\ e.act = 0 /\ e.rew = 0 /\ ~e.mhas /\ e.mep = 0 /\ e.mstep = 0
                                /\ e.mact = 0 /\ e.mrew = 0 /\ ~e.mstate
            /\ (e.ev = "Step" /\ ~e.mhas) => e.mep = 0 /\ e.mstep = 0 /\ e.mact = 0 /\ e.mrew = 0 /\ ~e.mstate
            /\ ~Ends(e) => e.hfull = <<>>
            /\ e.ev # "Close" => e.nsysf = 0 /\ e.npcapf = 0 /\ e.nagtf = 0
    ]
Failing(e) == LET cl == Clauses(e) IN {c \in DOMAIN cl : ~cl[c]}

Step_(e) ==
    CASE e.ev = "Construct"  -> Construct(e.i)
      [] e.ev = "Step"       -> Step(e.i, e.items)
      [] e.ev = "Reset"      -> Reset(e.i)
      [] e.ev = "Close"      -> Close(e.i)
      [] e.ev = "SysWrite"   -> SysWrite(e.i, e.lvl, e.n, e.nj)
      [] e.ev = "PcapWrite"  -> PcapWrite(e.i, e.dir, e.n)
      [] e.ev = "AgentWrite" -> AgentWrite(e.i, e.lvl, e.n)
      [] OTHER -> FALSE

TraceInit ==
    /\ tid \in 1..Len(Traces)
    /\ l = 1
    /\ IOInit([i \in Inst |-> Cfg.opt[i]])

TraceNext ==
    /\ l <= Len(T)
    /\ Failing(T[l]) = {}
    /\ Step_(T[l])
    /\ l' = l + 1
    /\ UNCHANGED tid

TraceSpec == TraceInit /\ [][TraceNext]_tvars

Seen == TLCGet(tid)
Lens(f) == [k \in DOMAIN f |-> Len(f[k])]
Record ==
    IF l > Seen.pos
    THEN TLCSet(tid, [pos |-> l,
                      fail |-> IF l <= Len(T) THEN Failing(T[l]) ELSE {},
                      st |-> [alive |-> alive, ep |-> ep, nhist |-> [i \in Inst |-> Len(hist[i])],
                              nfiles |-> [i \in Inst |-> Cardinality(DOMAIN afile[i])],
                              nmeta |-> [i \in Inst |-> Cardinality(meta[i])],
                              sysL |-> sysL, pcapL |-> pcapL, agtL |-> agtL]])
    ELSE TRUE
InitRegs == \A i \in 1..Len(Traces) : TLCSet(i, [pos |-> 0, fail |-> {}, st |-> <<>>])
ASSUME InitRegs

Report ==
    \A i \in 1..Len(Traces) :
        LET r == TLCGet(i) IN
        /\ PrintT(<<"TRACE", i, r.pos, Len(Traces[i].ev)>>)
        /\ (r.pos = Len(Traces[i].ev) + 1 \/ PrintT(<<"STUCK", i, r.pos, r.fail, r.st>>))
=============================================================================
