--------------------------- MODULE SessionsTrace ---------------------------
(* Trace validation of recorded account / login / remote-terminal          *)
(* histories of real nodes against Sessions.tla (batch idiom, DESIGN 4.4). *)
(*                                                                         *)
(* trace:  cfg = [maxRemote, timeout, clients, users, srvOn, srvTerm,      *)
(*                cliOn, cliTerm]                                          *)
(* event:  [ev |-> "AddUser"|"DisableUser"|"ChangePassword"|"LocalLogin"|  *)
(*                 "RemoteLogin"|"RemoteCommand"|"Logoff"|"Tick"|"NodeOff"|*)
(*                 "NodeOn"|"ServiceStop"|"ServiceStart"|"Raised",         *)
(*          c, u, p, np, adm, ok, exec, sid, node, kind,                   *)
(*          users, local, rem, conn, srvOn, srvTerm, cliOn, cliTerm]       *)
(* users = <<[name, pw, disabled, admin]>>, rem = <<[sid, user, origin]>>, *)
(* conn / cliOn / cliTerm = records indexed by client name; all read from  *)
(* the real objects after the call returned; unused fields carry 0/FALSE/"".*)
EXTENDS Sessions, TLC, TLCExt, Json, IOUtils

Traces == JsonDeserialize(IOEnv.TRACE_FILE)

VARIABLES tid, l
tvars == <<maxRemote, timeout, users, local, remote, conn, nsid, ended, srvOn, srvTerm, cliOn, cliTerm, tid, l>>

T == Traces[tid].ev
Cfg == Traces[tid].cfg
SetOf(s) == {s[i] : i \in 1..Len(s)}

UsersOf(s) ==
    [n \in {s[i].name : i \in 1..Len(s)} |->
        LET i == CHOOSE j \in 1..Len(s) : s[j].name = n
        IN  [pw |-> s[i].pw, disabled |-> s[i].disabled, admin |-> s[i].admin]]
ByClient(r, cs) == [c \in cs |-> r[c]]
CfgClients == SetOf(Cfg.clients)

\* the logged event as an event of the module
PostOf(e) ==
    [users |-> UsersOf(e.users), local |-> e.local, rem |-> SetOf(e.rem),
     conn |-> [c \in CfgClients |-> SetOf(e.conn[c])],
     srvOn |-> e.srvOn, srvTerm |-> e.srvTerm,
     cliOn |-> ByClient(e.cliOn, CfgClients), cliTerm |-> ByClient(e.cliTerm, CfgClients)]
EvOf(e) ==
    [name |-> e.ev, c |-> e.c, u |-> e.u, p |-> e.p, np |-> e.np, adm |-> e.adm, ok |-> e.ok,
     exec |-> e.exec, sid |-> e.sid, node |-> e.node, post |-> PostOf(e)]

\* named clauses, all predicates of (current state, event): the guard of the step
TClauses(e) == Clauses(EvOf(e))
TFailing(e) == Failing(EvOf(e))

Step(e) == Do(EvOf(e))

TraceInit ==
    /\ tid \in 1..Len(Traces)
    /\ l = 1
    /\ SessInit(Cfg.maxRemote, Cfg.timeout, UsersOf(Cfg.users), CfgClients, Cfg.srvOn, Cfg.srvTerm,
                ByClient(Cfg.cliOn, CfgClients), ByClient(Cfg.cliTerm, CfgClients))

TraceNext ==
    /\ l <= Len(T)
    /\ TFailing(T[l]) = {}
    /\ Step(T[l])
    /\ l' = l + 1
    /\ UNCHANGED tid

TraceSpec == TraceInit /\ [][TraceNext]_tvars

\* progress bookkeeping in TLC registers (one per trace); -workers 1
Seen == TLCGet(tid)
Record ==
    IF l > Seen.pos
    THEN TLCSet(tid, [pos |-> l,
                      fail |-> IF l <= Len(T) THEN TFailing(T[l]) ELSE {},
                      st |-> [users |-> users, local |-> local, remote |-> remote, conn |-> conn,
                              ended |-> ended, nsid |-> nsid, maxRemote |-> maxRemote, timeout |-> timeout,
                              srvOn |-> srvOn, srvTerm |-> srvTerm, cliOn |-> cliOn, cliTerm |-> cliTerm]])
    ELSE TRUE
InitRegs == \A i \in 1..Len(Traces) : TLCSet(i, [pos |-> 0, fail |-> {}, st |-> <<>>])
ASSUME InitRegs

Report ==
    \A i \in 1..Len(Traces) :
        LET r == TLCGet(i) IN
        /\ PrintT(<<"TRACE", i, r.pos, Len(Traces[i].ev)>>)
        /\ (r.pos = Len(Traces[i].ev) + 1 \/ PrintT(<<"STUCK", i, r.pos, r.fail, r.st>>))
=============================================================================
