--------------------------- MODULE MC_NodePower ---------------------------
(* Exhaustive model: all interleavings of power requests, other requests,  *)
(* ticks, incoming frames and send attempts, for all duration pairs.       *)
EXTENDS NodePower, TLC

CONSTANTS MaxDur, Software

\* flips on every observation step so that frame / send attempts are real (non-stuttering) steps
VARIABLE tog
mvars == <<pvars, tog>>

AllTrue == <<TRUE, TRUE>>
AllFalse == <<FALSE, FALSE>>

Init == tog = FALSE /\ \E u \in 0..MaxDur, d \in 0..MaxDur : PowerInit(u, d, "ON", AllTrue, Software)

\* the design's choice of the projected state for a target power state
DesignNic(s2, sn) == IF s2 = "ON" THEN sn ELSE AllFalse
DesignRun(s2, sr, cur) == IF s2 = "ON" THEN sr ELSE IF s2 = "OFF" THEN {} ELSE cur

Power(kind) ==
    IF PowerAccepted(kind)
    THEN LET leaving == kind \in {"shutdown", "reset"}
             sn == IF leaving THEN nic ELSE snapNic
             sr == IF leaving THEN run ELSE snapRun
             t  == AfterPower(kind)
         IN  ReqPower(kind, TRUE, DesignNic(t, sn), DesignRun(t, sr, run))
    ELSE ReqPower(kind, FALSE, nic, run)

DoTick == Tick(DesignNic(AfterTick, IF AfterTick = "ON" /\ st = "ON" THEN nic ELSE snapNic),
               IF AfterTick = st THEN run ELSE DesignRun(AfterTick, snapRun, run))

\* other requests: stop / start one piece of software, disable / enable one interface
Other ==
    \/ \E s \in Software : ReqOther(st = "ON", nic, IF st = "ON" THEN run \ {s} ELSE run)
    \/ \E s \in Software : ReqOther(st = "ON", nic, IF st = "ON" THEN run \cup {s} ELSE run)
    \/ \E i \in 1..2, b \in BOOLEAN : ReqOther(st = "ON", IF st = "ON" THEN [nic EXCEPT ![i] = b] ELSE nic, run)

Frame == \E a \in 0..1 : FrameIn(IF st = "ON" THEN a ELSE 0, IF st = "ON" THEN a ELSE 0, nic, run)
Emit == \E a \in 0..1 : TryEmit(IF st = "ON" THEN a ELSE 0, nic, run)

MPower(k) == Power(k) /\ UNCHANGED tog
MTick == DoTick /\ UNCHANGED tog
MOther == Other /\ UNCHANGED tog
MFrame == Frame /\ tog' = ~tog
MEmit == Emit /\ tog' = ~tog

Next ==
    \/ \E k \in {"shutdown", "startup", "reset"} : MPower(k)
    \/ MTick
    \/ MOther
    \/ MFrame
    \/ MEmit

Spec == Init /\ [][Next]_mvars /\ WF_mvars(MTick)

\* every started transition completes
Completes == [](st \in {"SD", "BOOT"} => <>(st \in {"ON", "OFF"}))
ResetRestarts == [](resetting => <>(st = "ON" \/ ~resetting))
=============================================================================
