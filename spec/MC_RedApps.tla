----------------------------- MODULE MC_RedApps -----------------------------
(* Exhaustive model of RedApps: every interleaving of application loops      *)
(* (data manipulation bot, ransomware script, DoS bot), run / close, node    *)
(* power, configure, service stop / start, database repair, execute call /   *)
(* return, tick and reset, for every configuration in the constant sets,     *)
(* bounded by MaxStim steps taken while no loop is in progress.  A loop may  *)
(* start whenever nothing else is in progress (execute request, tick, node   *)
(* start-up and the construction of the game all run it), so the model       *)
(* over-approximates the callers.  `act' names the step for the replay       *)
(* driver (hidden by the VIEW).                                              *)
(* Present = the applications installed (the DoS bot and the database        *)
(* applications do not interact except through the service: MC_RedAppsDm.cfg *)
(* and MC_RedAppsDos.cfg sweep every configuration of one side alone,        *)
(* MC_RedApps.cfg has all of them together on fewer configurations;          *)
(* MC_RedAppsDmQ.cfg is the quick-tier subset of MC_RedAppsDm.cfg).          *)
(* AsCoded = "no": the contract.  "dos": the loop end of the DoS bot as the  *)
(* code has it (anything but repeat-after-ATTACKING becomes COMPLETED);      *)
(* "client": a query goes out over a cached connection although the database *)
(* client is CLOSED and the reply is dropped.  TLC must refute both.         *)
EXTENDS RedApps, TLC
CONSTANTS PScan, PAtk, PDos, DosMaxs, DosInts, Payloads, Clients, Tgts, Repeats, Present, MaxStim, AsCoded
VARIABLES act, n
mvars == <<rvars, act, n>>

Init ==
    /\ n = 0 /\ act = <<"Init">>
    /\ \E ps \in PScan, pa \in PAtk, dr \in Repeats, pl \in Payloads, pd \in PDos, sr \in Repeats,
          mx \in DosMaxs, di \in DosInts, hc \in Clients, tg \in Tgts :
          RedInit([pScan |-> ps, pAtk |-> pa, dmRepeat |-> dr, dmPayload |-> pl, dosP |-> pd, dosRepeat |-> sr,
                   dosMax |-> mx, dosInt |-> di, hasClient |-> hc, strict |-> TRUE,
                   tgt |-> [b \in Bots |-> tg],
                   app0 |-> [a \in Apps |-> IF (a = "dbc" /\ ~hc) \/ a \notin Present THEN "ABSENT" ELSE "CLOSED"]])

Stim == n < MaxStim /\ n' = n + 1
Int  == UNCHANGED n

MDmBegin  == Stim /\ app["dm"] # "ABSENT" /\ DmBegin /\ act' = <<"DmBegin">>
MDmLogon  == Int /\ DmLogon(LogonTarget) /\ act' = <<"DmLogon">>
MDmScan   == Int /\ (\E s \in ScanTargets : DmScan(s)) /\ act' = <<"DmScan">>
ClosedClientDelivery == AsCoded = "client" /\ hasClient /\ conn["dm"] /\ reach /\ on["h1"] /\ app["dbc"] = "CLOSED"
                        /\ dmStage = "PORT_SCAN" /\ pAtk > 0
MDmManip  ==
    /\ Int /\ act' = <<"DmManip">>
    /\ IF ClosedClientDelivery
       THEN /\ pc = "dm.manip" /\ pc' = "dm.end" /\ dmStage' = "FAILED" /\ db' = Effect(dmPayload, db)
            /\ UNCHANGED <<cvars, on, off, app, tgt, dosStage, conn, dosConns, reach, ret>>
       ELSE \E o \in ManipOutcomes : DmManip(o[1], o[2], o[3])
MDmEnd    == Int /\ DmEnd(pc = "dm.end", DmEndTarget) /\ act' = <<"DmEnd">>

MRwBegin   == Stim /\ app["rw"] # "ABSENT" /\ RwBegin /\ act' = <<"RwBegin">>
MRwEncrypt == Int /\ (\E o \in EncryptOutcomes : RwEncrypt(o[1], o[2], o[3])) /\ act' = <<"RwEncrypt">>
MRwEnd     == Int /\ RwEnd(pc = "rw.end" /\ ret = "T") /\ act' = <<"RwEnd">>

MDosBegin  == Stim /\ app["dos"] # "ABSENT" /\ DosBegin /\ act' = <<"DosBegin">>
MDosScan   == Int /\ (\E s \in DosScanTargets : DosScan(s)) /\ act' = <<"DosScan">>
MDosAttack == Int /\ (\E k \in DosAttackConns : DosAttack(DosAttackStage, k)) /\ act' = <<"DosAttack">>
MDosEnd    ==
    /\ Int /\ act' = <<"DosEnd">>
    /\ IF AsCoded = "dos"
       THEN /\ pc \in {"dos.end", "dos.skip"} /\ pc' = "idle"
            /\ dosStage' = IF pc = "dos.end"
                           THEN (IF dosRepeat /\ dosStage = "ATTACKING" THEN "NOT_STARTED" ELSE "COMPLETED")
                           ELSE dosStage
            /\ ret' = IF pc = "dos.end" THEN "T" ELSE "F"
            /\ UNCHANGED <<cvars, on, off, app, tgt, dmStage, conn, dosConns, db, reach>>
       ELSE DosEnd(pc = "dos.end", DosEndTarget)

MRun(a)      == Stim /\ Run(a, RunTarget(a)) /\ act' = <<"Run", a>>
MClose(a)    == Stim /\ Close(a, CloseTarget(a)) /\ act' = <<"Close", a>>
\* instantaneous power: the node goes OFF only once its applications are closed (the shutdown closes them)
MNodeSet(h, b) == Stim /\ on[h] # b /\ (\E a \in Present : HostOf(a) = h) /\ (~b => NothingRunsOn(h)) /\ NodeSet(h, b, ~b) /\ act' = <<"NodeSet", h, b>>
MConfigure(a, t) == Stim /\ Configure(a, t) /\ act' = <<"Configure", a, t>>
MReach(b)    == Stim /\ reach # b /\ Reach(b) /\ act' = <<"Reach", b>>
MDbFix       == Stim /\ db # "GOOD" /\ DbFix /\ act' = <<"DbFix">>
MExecCall(a) == Stim /\ app[a] # "ABSENT" /\ ExecCall(a) /\ act' = <<"ExecCall", a>>
MExec(a)     == Stim /\ app[a] # "ABSENT" /\ ret # "none" /\ Exec(a, ret = "T") /\ act' = <<"Exec", a>>
MTick        == Stim /\ Tick /\ act' = <<"Tick">>
MReset       == Stim /\ n > 1 /\ Reset /\ act' = <<"Reset">>

Next ==
    \/ MDmBegin \/ MDmLogon \/ MDmScan \/ MDmManip \/ MDmEnd
    \/ MRwBegin \/ MRwEncrypt \/ MRwEnd
    \/ MDosBegin \/ MDosScan \/ MDosAttack \/ MDosEnd
    \/ \E a \in Apps : MRun(a) \/ MClose(a)
    \/ \E h \in Hosts, b \in BOOLEAN : MNodeSet(h, b)
    \/ \E a \in Bots, t \in BOOLEAN : MConfigure(a, t)
    \/ \E b \in BOOLEAN : MReach(b)
    \/ MDbFix
    \/ \E a \in Bots : MExecCall(a) \/ MExec(a)
    \/ MTick
    \/ MReset

Spec == Init /\ [][Next]_mvars
View == rvars
=============================================================================
