----------------------------- MODULE PairTrace -----------------------------
(* Batch validation of pairs of trajectories against Pair.tla.             *)
(* event: [a |-> rec, b |-> rec] with rec = [kind, obs, reward, flags,     *)
(*         state, agents |-> << [action, params, status, data, reward] >>] *)
(* the last event of a pair has kind "end" and obs = "<n steps>:<raised>"  *)
EXTENDS Pair, TLC, TLCExt, Json, IOUtils

Traces == JsonDeserialize(IOEnv.TRACE_FILE)

VARIABLES tid, l
tvars == <<pos, tid, l>>

T == Traces[tid].ev

Clauses(e) ==
    [ SameInputs       |-> e.a.kind = e.b.kind,
      SameObservation  |-> SameObservation(e),
      SameReward       |-> SameReward(e),
      SameFlags        |-> SameFlags(e),
      SameActions      |-> SameActions(e),
      SameResponses    |-> SameResponses(e),
      SameAgentRewards |-> SameAgentRewards(e),
      SameState        |-> SameState(e),
      SameEnd          |-> SameEnd(e)
    ]
Failing(e) == LET cl == Clauses(e) IN {c \in DOMAIN cl : ~cl[c]}

TraceInit == tid \in 1..Len(Traces) /\ l = 1 /\ PairInit
TraceNext ==
    /\ l <= Len(T)
    /\ Failing(T[l]) = {}
    /\ Advance(T[l])
    /\ l' = l + 1
    /\ UNCHANGED tid
TraceSpec == TraceInit /\ [][TraceNext]_tvars

Seen == TLCGet(tid)
Record ==
    IF l > Seen.pos
    THEN TLCSet(tid, [pos |-> l, fail |-> IF l <= Len(T) THEN Failing(T[l]) ELSE {}, st |-> [pos |-> pos]])
    ELSE TRUE
InitRegs == \A i \in 1..Len(Traces) : TLCSet(i, [pos |-> 0, fail |-> {}, st |-> <<>>])
ASSUME InitRegs
Report ==
    \A i \in 1..Len(Traces) :
        LET r == TLCGet(i) IN
        /\ PrintT(<<"TRACE", i, r.pos, Len(Traces[i].ev)>>)
        /\ (r.pos = Len(Traces[i].ev) + 1 \/ PrintT(<<"STUCK", i, r.pos, r.fail, r.st>>))
=============================================================================
