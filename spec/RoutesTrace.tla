---------------------------- MODULE RoutesTrace ----------------------------
(* Trace validation of recorded look-ups of the real RouteTable against    *)
(* Routes.tla (batch idiom of LinkTrace.tla, DESIGN.md 4.4).               *)
(*                                                                         *)
(* A trace is one table: cfg = [routes |-> <<[net, plen, hop, metric]>>,   *)
(* dflt |-> next hop or 0]; every event is one find_best_route(dst):       *)
(*   [ev |-> "Lookup", dst, chosen, usedDefault, hop]                      *)
(*   [ev |-> "Raised", ...]   (an exception out of repository code)        *)
(* chosen = 1-based index of the returned RouteEntry in the table (object  *)
(* identity), 0 when it is none of them; usedDefault = the default route   *)
(* object was returned; hop = the next hop of the returned entry (0: none).*)
EXTENDS Routes, TLC, TLCExt, Json, IOUtils

Traces == JsonDeserialize(IOEnv.TRACE_FILE)

VARIABLES tid, l,
          table, dflt     \* configuration (never change)
tvars == <<tid, l, table, dflt>>

T == Traces[tid].ev
Cfg == Traces[tid].cfg

Clauses(e) ==
    [ NoException   |-> e.ev # "Raised",
      ChosenIsBest  |-> e.ev = "Lookup" => ChoiceOK(table, dflt, e.dst, e.chosen, e.usedDefault),
      HopIsRoutes   |-> e.ev = "Lookup" =>
                           e.hop = (IF e.usedDefault THEN dflt
                                    ELSE IF e.chosen \in 1..Len(table) THEN table[e.chosen].hop ELSE NoHop)
    ]
Failing(e) == {c \in DOMAIN Clauses(e) : ~Clauses(e)[c]}

Step(e) ==
    CASE e.ev = "Lookup" -> UNCHANGED <<table, dflt>>
      [] OTHER -> FALSE

TraceInit ==
    /\ tid \in 1..Len(Traces)
    /\ l = 1
    /\ table = Cfg.routes
    /\ dflt = Cfg.dflt

TraceNext ==
    /\ l <= Len(T)
    /\ Failing(T[l]) = {}
    /\ Step(T[l])
    /\ l' = l + 1
    /\ UNCHANGED tid

TraceSpec == TraceInit /\ [][TraceNext]_tvars

Seen == TLCGet(tid)
Record ==
    IF l > Seen.pos
    THEN TLCSet(tid, [pos |-> l,
                      fail |-> IF l <= Len(T) THEN Failing(T[l]) ELSE {},
                      st |-> [best |-> IF l <= Len(T) /\ T[l].ev = "Lookup"
                                       THEN BestRoutes(table, dflt, T[l].dst) ELSE {},
                              dflt |-> dflt]])
    ELSE TRUE
InitRegs == \A i \in 1..Len(Traces) : TLCSet(i, [pos |-> 0, fail |-> {}, st |-> <<>>])
ASSUME InitRegs

Report ==
    \A i \in 1..Len(Traces) :
        LET r == TLCGet(i) IN
        /\ PrintT(<<"TRACE", i, r.pos, Len(Traces[i].ev)>>)
        /\ (r.pos = Len(Traces[i].ev) + 1 \/ PrintT(<<"STUCK", i, r.pos, r.fail, r.st>>))
=============================================================================
