--------------------------- MODULE BlockingTrace ---------------------------
(* Trace validation of recorded frame walks A -> middlebox -> B against     *)
(* Blocking.tla.  One trace = one frame emitted by A.                       *)
(* cfg: [topo, zoneA, zoneB, up, lists (name -> [rules, implicit], rule     *)
(*       src/dst as sequences of symbols), pkt]                             *)
(* event: [ev |-> "Emit"|"MRecv"|"Check"|"Learn"|"Local"|"Forward"|"BRecv",*)
(*         acc, list, perm]                                                 *)
EXTENDS Blocking, TLC, TLCExt, Json, IOUtils

Traces == JsonDeserialize(IOEnv.TRACE_FILE)

VARIABLES tid, l
tvars == <<topo, zoneA, zoneB, up, lists, pkt, loc, seen, denied, did, tid, l>>

T == Traces[tid].ev
Cfg == Traces[tid].cfg
SetOf(s) == {s[i] : i \in 1..Len(s)}
ListNames == {"acl", "ext_in", "ext_out", "int_in", "int_out", "dmz_in", "dmz_out"}
RuleOf(r) == [act |-> r.act, src |-> SetOf(r.src), dst |-> SetOf(r.dst), proto |-> r.proto, dport |-> r.dport]
ListsOf(c) == [n \in ListNames |-> [rules |-> [i \in 1..Len(c[n].rules) |-> RuleOf(c[n].rules[i])],
                                     implicit |-> c[n].implicit]]

Clauses(e) ==
    [ VerdictIsFirstMatch |-> e.ev = "Check" => (e.perm <=> (Verdict(e.list, pkt) = "PERMIT")),
      RightListInOrder    |-> e.ev = "Check" => (Len(seen) < Len(ListsFor(pkt)) /\ e.list = ListsFor(pkt)[Len(seen) + 1]),
      DenyIsFinal         |-> e.ev \in {"Check", "Learn", "Local", "Forward"} => ~denied,
      GuardedBeforeUse    |-> /\ (e.ev \in {"Learn", "Local"} /\ ListsFor(pkt) # <<>>) => Len(seen) >= 1
                              /\ e.ev = "Forward" => seen = ListsFor(pkt),
      NothingCrossesWhatIsDown |-> /\ e.ev = "Emit" => (up.nicA /\ up.linkA)
                                   /\ (e.ev = "MRecv" /\ e.acc) => (up.portA /\ up.onM)
                                   /\ e.ev = "Forward" => (up.portB /\ up.linkB /\ up.onM)
                                   /\ (e.ev = "BRecv" /\ e.acc) => (up.nicB /\ up.onB),
      BlockedNeverArrives |-> (e.ev = "BRecv" /\ e.acc) => ~Blocked
    ]
Failing(e) == LET cl == Clauses(e) IN {c \in DOMAIN cl : ~cl[c]}

Step(e) ==
    CASE e.ev = "Emit"    -> Emit
      [] e.ev = "MRecv"   -> MRecv(e.acc)
      [] e.ev = "Check"   -> Check(e.list, e.perm)
      [] e.ev = "Learn"   -> Learn
      [] e.ev = "Local"   -> Local
      [] e.ev = "Forward" -> Forward
      [] e.ev = "BRecv"   -> BRecv(e.acc)
      [] OTHER -> FALSE

TraceInit ==
    /\ tid \in 1..Len(Traces)
    /\ l = 1
    /\ BlockInit(Cfg.topo, Cfg.zoneA, Cfg.zoneB, Cfg.up, ListsOf(Cfg.lists), Cfg.pkt)

TraceNext ==
    /\ l <= Len(T)
    /\ Failing(T[l]) = {}
    /\ Step(T[l])
    /\ l' = l + 1
    /\ UNCHANGED tid

TraceSpec == TraceInit /\ [][TraceNext]_tvars

Seen == TLCGet(tid)
Record ==
    IF l > Seen.pos
    THEN TLCSet(tid, [pos |-> l,
                      fail |-> IF l <= Len(T) THEN Failing(T[l]) ELSE {},
                      st |-> [loc |-> loc, seen |-> seen, denied |-> denied, did |-> did, blocked |-> Blocked,
                              want |-> ListsFor(pkt)]])
    ELSE TRUE
InitRegs == \A i \in 1..Len(Traces) : TLCSet(i, [pos |-> 0, fail |-> {}, st |-> <<>>])
ASSUME InitRegs

Report ==
    \A i \in 1..Len(Traces) :
        LET r == TLCGet(i) IN
        /\ PrintT(<<"TRACE", i, r.pos, Len(Traces[i].ev)>>)
        /\ (r.pos = Len(Traces[i].ev) + 1 \/ PrintT(<<"STUCK", i, r.pos, r.fail, r.st>>))
=============================================================================
