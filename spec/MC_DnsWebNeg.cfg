SPECIFICATION Spec
CONSTANTS
  Clients = {"c1"}
  Names = {"a", "b"}
  SvcStates = {"RUNNING", "STOPPED"}
  MaxHist = 1
  MaxCodes = 1
  MaxEnv = 1
  TickAlways = FALSE
PROPERTY LookupNeedsLiveServer
VIEW View
CHECK_DEADLOCK FALSE
