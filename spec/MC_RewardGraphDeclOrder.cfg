SPECIFICATION Spec
CONSTANTS
  N = 3
  AllNord = FALSE
  OwnNeg = 0
  OwnPos = 1
  MaxSteps = 2
  AcyclicOnly = FALSE
  Variant = "decl"
INVARIANT MC_LoadIffAcyclic
INVARIANT CurIsSolution
CHECK_DEADLOCK FALSE
