------------------------- MODULE ObsEncodingTrace -------------------------
(* Trace validation of recorded observations of PrimAITE agents against    *)
(* ObsEncoding.tla (batch idiom of LinkTrace.tla, DESIGN.md 4.4).          *)
(*                                                                         *)
(* A trace is [cfg |-> [prop, constant], ev |-> <<event, ...>>].           *)
(*   cfg.prop      "C02" | "C09": which property's clauses are the guard   *)
(*   cfg.constant  the scenario is the same in every episode               *)
(* An event is (every event carries every field; unused ones 0/FALSE/"")   *)
(*   [ev |-> "Leaf",  kind, cfg, truth, obs, size, contains]               *)
(*        one leaf group of one observation: `cfg'/`truth' as in           *)
(*        ObsEncoding (truth read from the simulator objects, or the       *)
(*        generator state at component level), `obs' the observed fields,  *)
(*        `size' the Discrete sizes of the REAL gymnasium space,           *)
(*        `contains' = real_subspace.contains(observed sub-dict)           *)
(*   [ev |-> "Step",  nested, hasFlat, flat, bad]                          *)
(*        one reset/step of an environment: observation_space.contains of  *)
(*        the nested / flattened observation, number of leaves >= size     *)
(*   [ev |-> "Episode", od, ad]  structural digests of the observation and *)
(*        action space at the start of an episode                          *)
(*   [ev |-> "Raised", where, exc, inObs]  repository code raised, so there *)
(*        is no observation: C02 admits none; C09 only objects when the    *)
(*        observation code itself raised (inObs)                           *)
(* One trace = one leaf group at one step (so a divergence stays local);   *)
(* only the per-environment digest traces have several events.             *)
EXTENDS ObsEncoding, TLCExt, Json, IOUtils

Traces == JsonDeserialize(IOEnv.TRACE_FILE)

VARIABLES od0, ad0, tid, l
tvars == <<od0, ad0, tid, l>>

T == Traces[tid].ev
Cfg == Traces[tid].cfg

-----------------------------------------------------------------------------
(* named clauses; a clause name carries the kind and the field             *)

\* C09  ObservedEqualsEncoding
EncFailing(e) ==
    LET A == EncodeSet(e.kind, e.cfg, e.truth) IN
    {"Enc_" \o e.kind \o "_" \o f : f \in {g \in DOMAIN A \cap DOMAIN e.obs : e.obs[g] \notin A[g]}}
    \cup (IF DOMAIN e.obs = DOMAIN A THEN {} ELSE {"EncFields_" \o e.kind})

\* C02  SpaceAsDocumented (the real space has the documented fields, each at least as large as documented)
SpaceFailing(e) ==
    LET S == Space(e.kind, e.cfg) IN
    {"Space_" \o e.kind \o "_" \o f : f \in {g \in DOMAIN S \cap DOMAIN e.size : e.size[g] < S[g]}}
    \cup (IF DOMAIN e.size = DOMAIN S THEN {} ELSE {"SpaceFields_" \o e.kind})

\* C02  ObservedInSpace (every observed field below the real size, same fields, gymnasium agrees)
InFailing(e) ==
    {"In_" \o e.kind \o "_" \o f : f \in {g \in DOMAIN e.obs \cap DOMAIN e.size : ~(0 <= e.obs[g] /\ e.obs[g] < e.size[g])}}
    \cup (IF DOMAIN e.obs = DOMAIN e.size THEN {} ELSE {"InFields_" \o e.kind})
    \cup (IF e.contains THEN {} ELSE {"Contains_" \o e.kind})

StepFailing(e) ==
    (IF e.nested THEN {} ELSE {"NestedInSpace"})
    \cup (IF e.hasFlat /\ ~e.flat THEN {"FlatInSpace"} ELSE {})
    \cup (IF e.bad = 0 THEN {} ELSE {"LeavesInRange"})

EpisodeFailing(e) ==
    (IF Cfg.constant /\ od0 # "" /\ e.od # od0 THEN {"ObsSpaceConstant"} ELSE {})
    \cup (IF Cfg.constant /\ ad0 # "" /\ e.ad # ad0 THEN {"ActionSpaceConstant"} ELSE {})

Failing(e) ==
    CASE e.ev = "Leaf" /\ Cfg.prop = "C09" -> EncFailing(e)
      [] e.ev = "Leaf" /\ Cfg.prop = "C02" -> SpaceFailing(e) \cup InFailing(e)
      [] e.ev = "Step"    -> StepFailing(e)
      [] e.ev = "Episode" -> EpisodeFailing(e)
      [] e.ev = "Raised"  -> IF Cfg.prop = "C09" /\ ~e.inObs THEN {} ELSE {"NoRaise_" \o e.where}
      [] OTHER -> {"UnknownEvent"}

Step(e) ==
    CASE e.ev = "Episode" -> /\ od0' = IF od0 = "" THEN e.od ELSE od0
                             /\ ad0' = IF ad0 = "" THEN e.ad ELSE ad0
      [] e.ev \in {"Leaf", "Step", "Raised"} -> UNCHANGED <<od0, ad0>>
      [] OTHER -> FALSE

TraceInit ==
    /\ tid \in 1..Len(Traces)
    /\ l = 1
    /\ od0 = "" /\ ad0 = ""

TraceNext ==
    /\ l <= Len(T)
    /\ Failing(T[l]) = {}
    /\ Step(T[l])
    /\ l' = l + 1
    /\ UNCHANGED tid

TraceSpec == TraceInit /\ [][TraceNext]_tvars

\* printable form of a record of sets (TLC prints intervals as a..b, which the harness does not parse)
MaxOf(S) == CHOOSE x \in S : \A y \in S : x >= y
Show(A) == [f \in DOMAIN A |-> IF Cardinality(A[f]) > 4 THEN <<"any of", MinOf(A[f]), "to", MaxOf(A[f])>>
                                ELSE {v \in A[f] : TRUE}]

\* progress bookkeeping in TLC registers (one per trace); -workers 1
Seen == TLCGet(tid)
Record ==
    IF l > Seen.pos
    THEN TLCSet(tid, [pos |-> l,
                      fail |-> IF l <= Len(T) THEN Failing(T[l]) ELSE {},
                      st |-> IF l <= Len(T) /\ T[l].ev = "Leaf"
                             THEN [expected |-> Show(EncodeSet(T[l].kind, T[l].cfg, T[l].truth)),
                                   documented |-> Space(T[l].kind, T[l].cfg)]
                             ELSE [od0 |-> od0, ad0 |-> ad0]])
    ELSE TRUE
InitRegs == \A i \in 1..Len(Traces) : TLCSet(i, [pos |-> 0, fail |-> {}, st |-> <<>>])
ASSUME InitRegs

Report ==
    \A i \in 1..Len(Traces) :
        LET r == TLCGet(i) IN
        /\ PrintT(<<"TRACE", i, r.pos, Len(Traces[i].ev)>>)
        /\ (r.pos = Len(Traces[i].ev) + 1 \/ PrintT(<<"STUCK", i, r.pos, r.fail, r.st>>))
=============================================================================
