------------------------------ MODULE SessionIO ------------------------------
(***************************************************************************)
(* The session output of PrimAITE environments (extension module, beyond   *)
(* the listed properties): what an environment leaves on disk, per         *)
(* io_settings option, over its life  Construct ; (Step | Reset)* ; Close, *)
(* and what the sys-log / packet-capture / agent-log writers add to it.    *)
(* Several environments (Inst) may live in one process.                    *)
(*                                                                         *)
(* Code:  primaite/session/io.py (PrimaiteIO: Settings, session path,      *)
(*        write_agent_log), primaite/session/environment.py and            *)
(*        ray_envs.py (__init__ / step / _write_step_metadata_json / reset *)
(*        / close), primaite/simulator/__init__.py (SIM_OUTPUT),           *)
(*        simulator/system/core/sys_log.py, packet_capture.py,             *)
(*        game/agent/agent_log.py.                                         *)
(*                                                                         *)
(* Contract clauses and where they come from                               *)
(*  (1) agent actions.  docs/source/configuration/io_settings.rst          *)
(*      "save_agent_actions ... If True, this will create a JSON file each *)
(*      episode detailing every agent's action in each step of that        *)
(*      episode ... This includes scripted, RL, and red agents";           *)
(*      io.py Settings.save_agent_actions "a log of all agents' actions    *)
(*      every step"; generate_agent_actions_save_path(episode);            *)
(*      tests/.../test_obs_data_capture.py reads the file of episode k     *)
(*      after the reset that ended episode k.                              *)
(*        InvFilePerFinishedEpisode  every episode ended by Reset or Close *)
(*                                   has its file iff the option is on     *)
(*        InvFileHoldsEpisode        the file of episode k holds exactly   *)
(*                                   the steps of episode k, in order      *)
(*        InvWrittenOnce             and is written once                   *)
(*  (2) step metadata.  io_settings.rst "save_step_metadata ... If True,   *)
(*      The RL agent(s) actions, environment states and other data will be *)
(*      saved at every single step"; environment.py                        *)
(*      _write_step_metadata_json (fields episode, step, action, reward,   *)
(*      state).   InvMetaPerStep                                           *)
(*  (3) logs.  io_settings.rst "save_pcap_logs / save_sys_logs /           *)
(*      save_agent_logs ... If True, then the ... files ... will be saved",*)
(*      "sys_log_level & agent_log_level: The level of logging that should *)
(*      be visible in the syslog, agent logs or the logs output to the     *)
(*      terminal" (a message is visible iff its level is at or above the   *)
(*      configured one), "write_sys_log_to_terminal ... If True, PrimAITE  *)
(*      will print sys log to the terminal" (sys_log.py: also when the     *)
(*      caller passes to_terminal=True); sys_log.py _NotJSONFilter: JSON   *)
(*      shaped messages (start with { and end with }) are kept out of the  *)
(*      sys log.  The options are those of THE environment whose component *)
(*      writes (environment.py: "self.io ... Handles IO for the            *)
(*      environment"), whatever other environments of the process were     *)
(*      built with (property C04 for the trajectories; here the files).    *)
(*        InvSysIffOn, InvPcapIffOn, InvAgentIffOn                         *)
(*  (4) layout (judged in the trace specification, it is about paths):     *)
(*      game.rst "primaite/<VERSION>/sessions/<DATE>/<TIME>/               *)
(*      simulation_output", sys_log.py / packet_capture.py / agent_log.py  *)
(*      class docstrings, io.py generate_*_path.                           *)
(*  (5) none of the options changes the trajectory: property C03.          *)
(*                                                                         *)
(* Variant = "design": every environment has its own option cells and its  *)
(* own session directory (the clauses above).  The code-shaped variants    *)
(* are kept for the record and are refuted by TLC:                         *)
(*   "process_cells"  the writers consult process-level cells that the     *)
(*                    environment constructed last has overwritten         *)
(*                    (SIM_OUTPUT is one object per process)               *)
(*   "shared_dir"     all environments of a process write to one session   *)
(*                    directory (date_str / time_str are fixed at import)  *)
(*                                                                         *)
(* A step record (an element of a history / of a file) is opaque here.     *)
(* Levels: DEBUG = 1, INFO = 2, WARNING = 3, ERROR = 4, CRITICAL = 5.      *)
(***************************************************************************)
EXTENDS Naturals, Sequences, FiniteSets, TLC

CONSTANTS Inst, Variant

VARIABLES
    opt,      \* [Inst -> option record]            configuration, never changes
    alive,    \* [Inst -> "none" | "open" | "closed"]
    ep,       \* [Inst -> Nat]                      episode counter
    hist,     \* [Inst -> Seq(step record)]         what the agents' histories hold (current episode)
    afile,    \* [Inst -> [episode -> Seq(step record)]]  agent-actions files in the session directory
    awrites,  \* [Inst -> [episode -> Nat]]         how often each of them was written
    meta,     \* [Inst -> SUBSET (Nat \X Nat)]      <<episode, step>> of the step-metadata files
    sysL,     \* [Inst -> [Levels -> Nat]]          records in the sys-log files, per level
    pcapL,    \* [Inst -> [Dirs -> Nat]]            records in the packet-capture files, per direction
    agtL,     \* [Inst -> [Levels -> Nat]]          records in the agent-log files, per level
    glob,     \* option record of the environment constructed last (only read by Variant "process_cells")
    \* history variables (what was asked for), only read by the invariants
    past,     \* [Inst -> [episode -> Seq(step record)]]  the finished episodes
    taken,    \* [Inst -> SUBSET (Nat \X Nat)]      the steps taken
    emS, emP, emA  \* messages / frames handed to the writers (JSON-shaped sys-log messages not counted)

iovars == <<opt, alive, ep, hist, afile, awrites, meta, sysL, pcapL, agtL, glob, past, taken, emS, emP, emA>>

Levels == 1..5
Dirs == {"inb", "outb"}
Shapes == {"plain", "json", "tail"}   \* tail: ends with } without starting with { - not JSON-shaped

Empty == <<>>                          \* the function with the empty domain
Zero(S) == [x \in S |-> 0]

IOInit(o) ==
    /\ opt = o
    /\ alive = [i \in Inst |-> "none"]
    /\ ep = [i \in Inst |-> 0]
    /\ hist = [i \in Inst |-> <<>>]
    /\ afile = [i \in Inst |-> Empty]
    /\ awrites = [i \in Inst |-> Empty]
    /\ meta = [i \in Inst |-> {}]
    /\ sysL = [i \in Inst |-> Zero(Levels)]
    /\ pcapL = [i \in Inst |-> Zero(Dirs)]
    /\ agtL = [i \in Inst |-> Zero(Levels)]
    /\ glob = o[CHOOSE i \in Inst : TRUE]
    /\ past = [i \in Inst |-> Empty]
    /\ taken = [i \in Inst |-> {}]
    /\ emS = [i \in Inst |-> Zero(Levels)]
    /\ emP = [i \in Inst |-> Zero(Dirs)]
    /\ emA = [i \in Inst |-> Zero(Levels)]

\* the options a writer of environment i consults
Eff(i) == IF Variant = "process_cells" THEN glob ELSE opt[i]
\* the environments whose session directory a write of environment i lands in
SameDir(i) == IF Variant = "shared_dir" THEN {j \in Inst : j = i \/ alive[j] # "none"} ELSE {i}

Put(f, k, v) == (k :> v) @@ f          \* f with f[k] = v (new or overwritten)
Bump(f, k) == IF k \in DOMAIN f THEN [f EXCEPT ![k] = @ + 1] ELSE Put(f, k, 1)

\* ------------------------------------------------------------------ hooks
\* PrimaiteGymEnv.__init__ / PrimaiteRayMARLEnv.__init__: PrimaiteIO.from_config + the first game
Construct(i) ==
    /\ alive[i] = "none"
    /\ alive' = [alive EXCEPT ![i] = "open"]
    /\ glob' = opt[i]
    /\ UNCHANGED <<opt, ep, hist, afile, awrites, meta, sysL, pcapL, agtL, past, taken, emS, emP, emA>>

\* the step about to be taken is number Len(hist[i]) of episode ep[i]
StepId(i) == <<ep[i], Len(hist[i])>>

\* env.step(action): every agent acts once (items = what each agent's history got), then the metadata file
Step(i, items) ==
    /\ alive[i] = "open"
    /\ hist' = [hist EXCEPT ![i] = Append(@, items)]
    /\ meta' = [meta EXCEPT ![i] = IF opt[i].meta THEN @ \cup {StepId(i)} ELSE @]
    /\ taken' = [taken EXCEPT ![i] = @ \cup {StepId(i)}]
    /\ UNCHANGED <<opt, alive, ep, afile, awrites, sysL, pcapL, agtL, glob, past, emS, emP, emA>>

\* the end of episode ep[i] (in reset() and in close()): PrimaiteIO.write_agent_log
AfileAfterFinish(i, j) == IF opt[i].acts /\ j \in SameDir(i) THEN Put(afile[j], ep[i], hist[i]) ELSE afile[j]
Finish(i) ==
    /\ afile' = [j \in Inst |-> AfileAfterFinish(i, j)]
    /\ awrites' = [j \in Inst |-> IF opt[i].acts /\ j \in SameDir(i) THEN Bump(awrites[j], ep[i]) ELSE awrites[j]]
    /\ past' = [past EXCEPT ![i] = Put(@, ep[i], hist[i])]

Reset(i) ==
    /\ alive[i] = "open"
    /\ Finish(i)
    /\ ep' = [ep EXCEPT ![i] = @ + 1]
    /\ hist' = [hist EXCEPT ![i] = <<>>]
    /\ UNCHANGED <<opt, alive, meta, sysL, pcapL, agtL, glob, taken, emS, emP, emA>>

Close(i) ==
    /\ alive[i] = "open"
    /\ Finish(i)
    /\ alive' = [alive EXCEPT ![i] = "closed"]
    /\ UNCHANGED <<opt, ep, hist, meta, sysL, pcapL, agtL, glob, taken, emS, emP, emA>>

\* ------------------------------------------------------------------ writers
\* (a component of environment i - also while i is being constructed - hands n messages / frames to its writer)
SysVisible(o, lvl) == lvl >= o.sysLvl
AgtVisible(o, lvl) == lvl >= o.agtLvl
SysToFile(o, lvl) == o.sys /\ SysVisible(o, lvl)
AgtToFile(o, lvl) == o.agt /\ AgtVisible(o, lvl)
\* lines on the terminal for n calls of which tt asked for the terminal themselves
SysToTerm(o, lvl, n, tt) == IF SysVisible(o, lvl) THEN (IF o.sysTerm THEN n ELSE tt) ELSE 0
AgtToTerm(o, lvl, n, tt) == IF AgtVisible(o, lvl) THEN (IF o.agtTerm THEN n ELSE tt) ELSE 0

\* SysLog.debug / info / warning / error / critical: n calls, nj of them with a JSON-shaped message (start with { and
\* end with }: those are for the packet captures and are kept out of the sys log)
SysWrite(i, lvl, n, nj) ==
    /\ alive[i] # "closed" /\ lvl \in Levels /\ n > 0 /\ nj <= n
    /\ sysL' = [sysL EXCEPT ![i][lvl] = @ + (IF SysToFile(Eff(i), lvl) THEN n - nj ELSE 0)]
    /\ emS' = [emS EXCEPT ![i][lvl] = @ + (n - nj)]
    /\ UNCHANGED <<opt, alive, ep, hist, afile, awrites, meta, pcapL, agtL, glob, past, taken, emP, emA>>

\* PacketCapture.capture_inbound / capture_outbound
PcapWrite(i, dir, n) ==
    /\ alive[i] # "closed" /\ dir \in Dirs /\ n > 0
    /\ pcapL' = [pcapL EXCEPT ![i][dir] = @ + (IF Eff(i).pcap THEN n ELSE 0)]
    /\ emP' = [emP EXCEPT ![i][dir] = @ + n]
    /\ UNCHANGED <<opt, alive, ep, hist, afile, awrites, meta, sysL, agtL, glob, past, taken, emS, emA>>

\* AgentLog.debug / info / warning / error / critical
AgentWrite(i, lvl, n) ==
    /\ alive[i] # "closed" /\ lvl \in Levels /\ n > 0
    /\ agtL' = [agtL EXCEPT ![i][lvl] = @ + (IF AgtToFile(Eff(i), lvl) THEN n ELSE 0)]
    /\ emA' = [emA EXCEPT ![i][lvl] = @ + n]
    /\ UNCHANGED <<opt, alive, ep, hist, afile, awrites, meta, sysL, pcapL, glob, past, taken, emS, emP>>

\* ------------------------------------------------------------------ the clauses as invariants
Finished(i) == {k \in 0..ep[i] : k < ep[i] \/ alive[i] = "closed"}
InvFinishedRecorded == \A i \in Inst : DOMAIN past[i] = Finished(i)
\* (1)
InvFilePerFinishedEpisode == \A i \in Inst : DOMAIN afile[i] = IF opt[i].acts THEN Finished(i) ELSE {}
InvFileHoldsEpisode == \A i \in Inst : \A k \in DOMAIN afile[i] : k \in DOMAIN past[i] /\ afile[i][k] = past[i][k]
InvWrittenOnce == \A i \in Inst : DOMAIN awrites[i] = DOMAIN afile[i] /\ \A k \in DOMAIN awrites[i] : awrites[i][k] = 1
\* (2)
InvMetaPerStep == \A i \in Inst : meta[i] = IF opt[i].meta THEN taken[i] ELSE {}
\* (3)
InvSysIffOn == \A i \in Inst : \A l \in Levels :
    sysL[i][l] = IF opt[i].sys /\ SysVisible(opt[i], l) THEN emS[i][l] ELSE 0
InvPcapIffOn == \A i \in Inst : \A d \in Dirs : pcapL[i][d] = IF opt[i].pcap THEN emP[i][d] ELSE 0
InvAgentIffOn == \A i \in Inst : \A l \in Levels :
    agtL[i][l] = IF opt[i].agt /\ AgtVisible(opt[i], l) THEN emA[i][l] ELSE 0
\* the configuration never changes
OptNeverChanges == [][opt' = opt]_iovars
=============================================================================
