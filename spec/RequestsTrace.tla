--------------------------- MODULE RequestsTrace ---------------------------
(* Trace validation for C05 / C11 against Requests.tla.                    *)
(* event: [ev |-> "Req" | "Tick",                                          *)
(*         path   |-> << [present, guard], ... >>  observation by the      *)
(*                    harness' own walk of the live managers,              *)
(*         leaf   |-> the walk ended at a handler,                         *)
(*         exec   |-> the request was executed (FALSE: mask-only record),  *)
(*         status |-> "success"|"failure"|"unreachable"|"pending"|other,   *)
(*         reason |-> the response carried a reason,                       *)
(*         pre, post |-> canonical numbers of the state digests,           *)
(*         mask   |-> "allow"|"deny"|"na",                                 *)
(*         action |-> produced from an agent action, exist |-> its         *)
(*                    parameters name existing components ]                *)
EXTENDS Requests, TLC, TLCExt, Json, IOUtils

Traces == JsonDeserialize(IOEnv.TRACE_FILE)

VARIABLES tid, l, dig
tvars == <<tid, l, dig>>

T == Traces[tid].ev
Cfg == Traces[tid].cfg

Outcome(e) == IF Dispatch(e.path) = "handled" /\ ~e.leaf THEN "truncated" ELSE Dispatch(e.path)

Clauses(e) ==
    [ StateStableBetweenRequests |-> e.ev = "Req" => e.pre = dig,
      DocumentedStatus   |-> (e.ev = "Req" /\ e.exec) => e.status \in Statuses,
      RefusedNotSuccess  |-> (e.ev = "Req" /\ e.exec /\ Outcome(e) \in {"unreachable", "failure"})
                                => e.status \in {"unreachable", "failure"},
      RefusalHasReason   |-> (e.ev = "Req" /\ e.exec /\ Outcome(e) \in {"unreachable", "failure"}
                                /\ e.status \in {"unreachable", "failure"}) => e.reason,
      RefusedChangesNothing |-> (e.ev = "Req" /\ e.exec /\ Outcome(e) # "handled") => e.post = e.pre,
      TruncatedNotSuccess |-> (e.ev = "Req" /\ e.exec /\ Outcome(e) = "truncated") => e.status # "success",
      ActionReachesComponent |-> (e.ev = "Req" /\ e.action /\ e.exist) => Outcome(e) \in {"handled", "failure"},
      \* ... and the ANSWER says so too (the walk above is the harness' own; the status is the simulator's)
      ActionNeverUnreachable |-> (e.ev = "Req" /\ e.exec /\ e.action /\ e.exist) => e.status # "unreachable",
      \* a component that does not exist (by the simulator's own component tables, whatever routes are registered)
      AbsentNeverSucceeds |-> (e.ev = "Req" /\ e.exec /\ e.gone) => (e.status \in {"unreachable", "failure"} /\ e.post = e.pre),
      \* the request executed for action number i is the one formed from the entry DECLARED under key i (the mask describes
      \* that entry)
      ExecutedIsDeclaredEntry |-> e.ev = "Req" => e.declared,
      \* the power conjunct of the documented preconditions, read from the node itself (no validator): an action on a node
      \* needs the node ON - start-up needs it OFF; the mask never allows, and the simulator never performs, anything else
      DocumentedPowerRule |-> e.ev = "Req" => (((e.mask = "allow") \/ (e.exec /\ e.status = "success")) => e.pwok),
      MaskExact          |-> (e.ev = "Req" /\ e.mask # "na") => (e.mask = "allow" <=> MaskAllows(e.path) /\ e.leaf),
      MaskedNeverSucceeds |-> (e.ev = "Req" /\ e.exec /\ e.mask = "deny") => e.status # "success"
    ]
Failing(e) == {c \in DOMAIN Clauses(e) : ~Clauses(e)[c]}

Step(e) ==
    CASE e.ev = "Req"  -> dig' = IF e.exec THEN e.post ELSE dig
      [] e.ev = "Tick" -> dig' = e.post
      [] OTHER -> FALSE

TraceInit == tid \in 1..Len(Traces) /\ l = 1 /\ dig = Cfg.dig

TraceNext ==
    /\ l <= Len(T)
    /\ Failing(T[l]) = {}
    /\ Step(T[l])
    /\ l' = l + 1
    /\ UNCHANGED tid

TraceSpec == TraceInit /\ [][TraceNext]_tvars

Seen == TLCGet(tid)
Record ==
    IF l > Seen.pos
    THEN TLCSet(tid, [pos |-> l,
                      fail |-> IF l <= Len(T) THEN Failing(T[l]) ELSE {},
                      st |-> [dig |-> dig, outcome |-> IF l <= Len(T) /\ T[l].ev = "Req" THEN Outcome(T[l]) ELSE "-"]])
    ELSE TRUE
InitRegs == \A i \in 1..Len(Traces) : TLCSet(i, [pos |-> 0, fail |-> {}, st |-> <<>>])
ASSUME InitRegs

Report ==
    \A i \in 1..Len(Traces) :
        LET r == TLCGet(i) IN
        /\ PrintT(<<"TRACE", i, r.pos, Len(Traces[i].ev)>>)
        /\ (r.pos = Len(Traces[i].ev) + 1 \/ PrintT(<<"STUCK", i, r.pos, r.fail, r.st>>))
=============================================================================
