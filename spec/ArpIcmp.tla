------------------------------ MODULE ArpIcmp ------------------------------
(***************************************************************************)
(* ARP and ICMP echo on hosts and routers (extension module, beyond the    *)
(* listed properties).  Message-level model: every handler of the real     *)
(* code that touches the ARP cache, the ICMP reply tally or the wire is    *)
(* one action; frames are records on a `wire' (the simulator delivers      *)
(* synchronously, so the wire is emptied when a top-level call returns:    *)
(* action Quiet).  Switches are transparent: a `segment' is a broadcast    *)
(* domain.  Routing decisions and ACLs belong to other modules (Routes,    *)
(* Forwarding, Acl): here a router may refuse an ICMP / data frame         *)
(* (RxDeny) and is free in the choice of a next hop that is not directly   *)
(* connected.                                                              *)
(*                                                                         *)
(* Contract clauses (name : source)                                        *)
(*  ARP cache                                                              *)
(*  LearnOnlyFromReceivedFrame : docs internal_frame_processing.rst:29     *)
(*     "The source IP address is added to the ARP cache if not already     *)
(*     present"; ARP.add_arp_cache_entry docstring (arp.py:89) "If an      *)
(*     entry for the given IP address already exists, the entry is only    *)
(*     updated if override"; ARPEntry docstring (protocols/arp.py:16): an  *)
(*     entry = MAC + the interface "through which the NIC with the IP      *)
(*     address is reachable".  Nothing else writes the cache (ARP.clear).  *)
(*  OnlyLiveNodesReceive : Node.receive_frame (base.py:2255) learns only   *)
(*     when ON; NIC.receive_frame docstring (host_node.py:231) "processes  *)
(*     a frame if the NIC is enabled"; WiredNetworkInterface.enable        *)
(*     refuses on a node that is not ON.                                   *)
(*  ArpRequestOncePerMiss / LookupMissSendsRequest /                       *)
(*  ArpRequestBroadcastInTargetSubnet :                                    *)
(*     ARP.send_arp_request (arp.py:126-173): nothing when the address is  *)
(*     cached; one broadcast request, target = the address if it is in a   *)
(*     local subnet else the default gateway, out of the interface whose   *)
(*     subnet holds the target.                                            *)
(*  ArpReplyOnlyByOwner : HostARP._process_arp_request docstring           *)
(*     (host_node.py:156) "if the target IP address matches the NIC's IP   *)
(*     address ... sends an ARP reply back"; RouterARP._process_arp_request*)
(*     (router.py:885); docs router.rst:37.                                *)
(*     A reply names the (address, MAC) pair of the interface that owns    *)
(*     the requested address AND heard the request, once per request; it   *)
(*     may leave a router through another interface towards the asker.     *)
(*  OwnerAnswers (positive half, checked when a call returns): same        *)
(*     sources + router.rst:37,39 "Responds to ARP requests ...",          *)
(*     "Generates and processes ICMP packets".                             *)
(*  UnicastToResolvedMac : SessionManager.resolve_outbound_transmission_   *)
(*     details docstring (session_manager.py:191-195): the destination MAC *)
(*     is resolved with ARP; the default gateway is used "if the           *)
(*     destination IP address is outside the local network";               *)
(*     HostARP.get_arp_cache_mac_address docstring (host_node.py:105):     *)
(*     "The MAC address if available in the ARP cache; otherwise, None".   *)
(*  ICMP echo                                                              *)
(*  EchoRequestOnlyFromPing : ICMP.ping docstring (icmp.py:60-68): `pings' *)
(*     echo requests, one identifier, sequence 1..pings.                   *)
(*  EchoReplyOnlyByAddressee : ICMP._process_icmp_echo_request             *)
(*     (icmp.py:135: not for this interface -> ignored); RouterICMP.receive*)
(*     docstring (router.py:970-981): only for an enabled own interface.   *)
(*  EchoReplySameIdentifier : ICMP.ping counts the replies under the       *)
(*     identifier of its requests (icmp.py:78, 180-182) and both echo      *)
(*     handlers copy `identifier=frame.icmp.identifier' (icmp.py:153,      *)
(*     router.py:949): a reply carries the identifier of the request it    *)
(*     answers, one reply per request, produced by the addressee.  What    *)
(*     SEQUENCE number a reply carries is pinned nowhere (the code sends   *)
(*     request sequence + 1, nothing reads it): it is recorded, not judged.*)
(*  AtMostNReplies / PingTrueIffAllAnswered : ICMP.ping docstring          *)
(*     (icmp.py:66) "True if ... a reply was received for every request    *)
(*     sent, otherwise False"; Node.ping docstring (base.py:2229).         *)
(*  UnreachableGivesFalse : consequence checked in the exhaustive model.   *)
(*                                                                         *)
(* Configuration lives in variables that never change:                     *)
(*   ifs[i] = [node, ip, mac, seg]  the layer-3 interfaces                 *)
(*   kind[n] \in {"host","router"}, gw[n] = default gateway (0 = none)     *)
(*   sub[i] = the addresses that lie in the subnet of interface i (masks   *)
(*   may differ between the interfaces of one segment, and two interfaces  *)
(*   of one router may sit in one broadcast domain)                        *)
(* Addresses, MACs, nodes, interfaces, networks, segments are small        *)
(* naturals; MAC 0 is the broadcast address.                               *)
(***************************************************************************)
EXTENDS Naturals, FiniteSets, Sequences

VARIABLES ifs, kind, gw, sub,              \* configuration
          power, up,                       \* node is ON / interface is enabled
          cache,                           \* cache[n] : ip -> [mac, ifc]
          tally,                           \* tally[n] : identifier -> echo replies counted (ICMP.request_replies)
          ping,                            \* the ping() call in progress, or NoPing
          ask,                             \* ask[n] = the request send_arp_request of n may still transmit
          owed,                            \* replies a handler has decided to send and that are not yet sent
          fwd,                             \* frames a router has taken for forwarding
          tok,                             \* echo replies received by their addressee, not yet counted
          wire, got, nfid,                 \* frames sent in this call, deliveries <<fid, i>>, next frame id
          last,                            \* outcome of the last finished ping
          act                              \* name and arguments of the last action
cvars == <<ifs, kind, gw, sub>>
dvars == <<power, up, cache, tally, ping, ask, owed, fwd, tok, wire, got, nfid, last>>
avars == <<cvars, dvars, act>>

Nodes == 1..Len(kind)
Ifs == 1..Len(ifs)
Bcast == 0
IfsOf(n) == {i \in Ifs : ifs[i].node = n}
IpsOf(n) == {ifs[i].ip : i \in IfsOf(n)}
\* the interfaces of n whose subnet holds ip
LocalIf(n, ip) == {i \in IfsOf(n) : ip \in sub[i]}
\* ... and that are enabled ("considers only enabled network interfaces", SessionManager.resolve_outbound_network_interface)
LocalUpIf(n, ip) == {i \in LocalIf(n, ip) : up[i]}
NoPing == [n |-> 0, tgt |-> 0, cnt |-> 0, id |-> 0, sent |-> 0]
NoAsk == [tip |-> 0, left |-> 0]
Empty == <<>>                                 \* the function with empty domain
Kinds == {"areq", "arep", "ereq", "erep", "data"}

\* a frame: [fid, k, out (sending interface), edst, isrc, idst, id, seq, sip, smac, tip, tmac]; source MAC and
\* segment are those of the sending interface; sip / smac / tip / tmac = the ARP packet (0 for other frames): a request
\* names the sending interface, a reply names the interface that owns the requested address - it may leave the
\* router through another of its interfaces (the session manager picks the first enabled one towards the asker)
Esrc(f) == ifs[f.out].mac
Seg(f) == ifs[f.out].seg
FrameOf(fid) == CHOOSE f \in wire : f.fid = fid

Learn(c, n, ip, mac, i) ==
    IF ip \in DOMAIN c \/ ip \in IpsOf(n) THEN c
    ELSE [x \in DOMAIN c \cup {ip} |-> IF x = ip THEN [mac |-> mac, ifc |-> i] ELSE c[x]]
Without(f, x) == [y \in DOMAIN f \ {x} |-> f[y]]
Count(n, id) == IF id \in DOMAIN tally[n] THEN tally[n][id] ELSE 0

ArpInit(ifs0, kind0, gw0, sub0, power0, up0, cache0) ==
    /\ ifs = ifs0 /\ kind = kind0 /\ gw = gw0 /\ sub = sub0
    /\ power = power0 /\ up = up0 /\ cache = cache0
    /\ tally = [n \in 1..Len(kind0) |-> Empty]
    /\ ping = NoPing
    /\ ask = [n \in 1..Len(kind0) |-> NoAsk]
    /\ owed = {} /\ fwd = {} /\ tok = {} /\ wire = {} /\ got = {} /\ nfid = 1
    /\ last = [n |-> 0, tgt |-> 0, cnt |-> 0, answered |-> 0, res |-> FALSE]
    /\ act = <<"Init">>

------------------------------------------------------------------------------
\* ICMP.ping entry
PingStart(n, tgt, c) ==
    /\ ping.n = 0 /\ n \in Nodes /\ c >= 1
    /\ ping' = [n |-> n, tgt |-> tgt, cnt |-> c, id |-> 0, sent |-> 0]
    /\ act' = <<"PingStart", n, tgt, c>>
    /\ UNCHANGED <<cvars, power, up, cache, tally, ask, owed, fwd, tok, wire, got, nfid, last>>

\* ICMP.ping return: True iff every request was answered; the identifier's tally is dropped
PingResult == ping.id # 0 /\ Count(ping.n, ping.id) = ping.cnt
PingEnd(n, res) ==          \* res: the value returned (the clause PingTrueIffAllAnswered compares it with PingResult)
    /\ ping.n = n /\ n # 0
    /\ last' = [n |-> n, tgt |-> ping.tgt, cnt |-> ping.cnt, answered |-> Count(n, ping.id), res |-> res]
    /\ tally' = [tally EXCEPT ![n] = IF ping.id \in DOMAIN @ THEN Without(@, ping.id) ELSE @]
    /\ ping' = NoPing
    /\ act' = <<"PingEnd", n, res>>
    /\ UNCHANGED <<cvars, power, up, cache, ask, owed, fwd, tok, wire, got, nfid>>

\* a send_arp_request call that had to transmit did so, unless no interface towards the target is up
AskSent(n) == ask[n].left = 1 => ~\E i \in LocalIf(n, ask[n].tip) : up[i] /\ power[n]
\* ARP.send_arp_request entry: what the call may transmit
ArpTarget(n, want) ==
    IF LocalIf(n, want) # {} THEN want
    ELSE IF kind[n] = "host" /\ gw[n] # 0 /\ LocalIf(n, gw[n]) # {} THEN gw[n] ELSE 0
ArpAsk(n, want) ==
    /\ n \in Nodes /\ AskSent(n)
    /\ LET t == ArpTarget(n, want) IN
       ask' = [ask EXCEPT ![n] = [tip |-> t, left |-> IF t = 0 \/ want \in DOMAIN cache[n] THEN 0 ELSE 1]]
    /\ act' = <<"ArpAsk", n, want>>
    /\ UNCHANGED <<cvars, power, up, cache, tally, ping, owed, fwd, tok, wire, got, nfid, last>>

------------------------------------------------------------------------------
\* the destination MAC of a unicast frame is the cached MAC of the destination when that is on the subnet of an enabled
\* local interface, else (host) of the default gateway, (router) of some neighbour on the outgoing interface's subnet
Resolved(n, f) ==
    \E hop \in DOMAIN cache[n] :
        /\ cache[n][hop].mac = f.edst /\ cache[n][hop].ifc = f.out
        /\ IF LocalUpIf(n, f.idst) # {} THEN hop = f.idst
           ELSE (kind[n] = "host" => hop = gw[n])
\* the reply claims the (ip, mac) pair of the interface that owns the requested address and received the request
OwedArp(f) == {o \in owed : o.n = ifs[f.out].node /\ o.k = "arep" /\ o.to = f.tip /\ o.mac = f.tmac
                            /\ f.sip = ifs[o.via].ip /\ f.smac = ifs[o.via].mac}
OwedEchoAny(f) == {o \in owed : o.n = ifs[f.out].node /\ o.k = "erep" /\ o.to = f.idst}
OwedEcho(f) == {o \in OwedEchoAny(f) : o.id = f.id}      \* (the reply's sequence number is free)
FwdOf(f) == {t \in fwd : t.n = ifs[f.out].node /\ t.k = f.k /\ t.isrc = f.isrc /\ t.idst = f.idst
                         /\ t.id = f.id /\ t.seq = f.seq}
FromPing(f) == /\ ping.n = ifs[f.out].node /\ f.k = "ereq" /\ f.idst = ping.tgt /\ f.isrc = ifs[f.out].ip
               /\ f.id # 0 /\ (ping.id = 0 \/ f.id = ping.id)
               /\ ping.sent < f.seq /\ f.seq <= ping.cnt

\* the parts of the transmission rule (named so that the trace specification can report them one by one)
TxArpRequestOk(f) == LET n == ifs[f.out].node IN
    /\ ask[n].left = 1 /\ f.tip = ask[n].tip
TxArpRequestShape(f) == LET n == ifs[f.out].node IN
    /\ f.edst = Bcast /\ f.idst = f.tip /\ f.isrc = ifs[f.out].ip /\ f.out \in LocalIf(n, f.tip)
    /\ f.sip = ifs[f.out].ip /\ f.smac = ifs[f.out].mac
TxArpReplyOk(f) == OwedArp(f) # {}
TxArpReplyShape(f) == f.isrc = ifs[f.out].ip /\ f.tip = f.idst /\ f.tmac = f.edst
TxEchoRequestOk(f) == FromPing(f) \/ FwdOf(f) # {}
TxEchoReplyOk(f) == (OwedEchoAny(f) # {} /\ f.isrc \in IpsOf(ifs[f.out].node)) \/ FwdOf(f) # {}
TxEchoReplyIdOk(f) == OwedEchoAny(f) # {} => OwedEcho(f) # {}
TxUnicastOk(f) == f.k \in {"ereq", "erep"} => Resolved(ifs[f.out].node, f)

\* an interface hands a frame to its link (NetworkInterface.send_frame); ok = the link took it.  The two clauses
\* TxArpReplyOk, TxEchoReplyIdOk and TxUnicastOk are not guards of the action: they are judged on the frames (trace clauses
\* ArpReplyOnlyByOwner / EchoReplySameIdentifier / UnicastToResolvedMac, invariants in MC_ArpIcmp)
Tx(f, ok) ==
    LET n == ifs[f.out].node IN
    /\ f.out \in Ifs /\ f.k \in Kinds
    /\ ok => (power[n] /\ up[f.out])
    /\ f.fid = nfid
    /\ nfid' = nfid + 1
    /\ wire' = IF ok THEN wire \cup {f} ELSE wire
    /\ CASE f.k = "areq" ->
              /\ TxArpRequestOk(f) /\ TxArpRequestShape(f)
              /\ ask' = [ask EXCEPT ![n] = [@ EXCEPT !.left = 0]]
              /\ UNCHANGED <<owed, fwd, ping>>
         [] f.k = "arep" ->
              /\ TxArpReplyShape(f)
              /\ owed' = IF OwedArp(f) # {} THEN owed \ {CHOOSE o \in OwedArp(f) : TRUE} ELSE owed
              /\ UNCHANGED <<ask, fwd, ping>>
         [] f.k = "ereq" ->
              /\ TxEchoRequestOk(f)
              /\ IF FromPing(f)
                 THEN ping' = [ping EXCEPT !.id = f.id, !.sent = f.seq] /\ UNCHANGED fwd
                 ELSE fwd' = fwd \ {CHOOSE t \in FwdOf(f) : TRUE} /\ UNCHANGED ping
              /\ UNCHANGED <<ask, owed>>
         [] f.k = "erep" ->
              /\ TxEchoReplyOk(f)
              /\ IF OwedEchoAny(f) # {}
                 THEN owed' = owed \ {CHOOSE o \in (IF OwedEcho(f) # {} THEN OwedEcho(f) ELSE OwedEchoAny(f)) : TRUE}
                      /\ UNCHANGED fwd
                 ELSE fwd' = fwd \ {CHOOSE t \in FwdOf(f) : TRUE} /\ UNCHANGED owed
              /\ UNCHANGED <<ask, ping>>
         [] f.k = "data" -> UNCHANGED <<ask, owed, fwd, ping>>
    /\ act' = <<"Tx", f.k, f.out, ok>>
    /\ UNCHANGED <<cvars, power, up, cache, tally, tok, got, last>>

------------------------------------------------------------------------------
\* NIC.receive_frame / RouterInterface.receive_frame acceptance
Accepts(i, f) ==
    \/ f.edst = ifs[i].mac
    \/ f.edst = Bcast /\ (kind[ifs[i].node] = "router" \/ f.idst = ifs[i].ip)
Deliverable(i, f) ==
    /\ f \in wire /\ Seg(f) = ifs[i].seg /\ i # f.out
    /\ <<f.fid, i>> \notin got
    /\ power[ifs[i].node] /\ up[i] /\ Accepts(i, f)
OwnUp(n, ip) == \E j \in IfsOf(n) : ifs[j].ip = ip /\ up[j]

\* what the receiving node owes / takes on after a frame came in on interface i
NewOwed(i, f) == LET n == ifs[i].node IN
    IF f.k = "areq" /\ f.tip = ifs[i].ip
    THEN {[n |-> n, k |-> "arep", via |-> i, to |-> f.sip, mac |-> f.smac, id |-> 0, seq |-> 0]}
    ELSE IF f.k = "ereq" /\ (IF kind[n] = "host" THEN f.idst = ifs[i].ip ELSE OwnUp(n, f.idst))
    THEN {[n |-> n, k |-> "erep", via |-> 0, to |-> f.isrc, mac |-> 0, id |-> f.id, seq |-> f.seq]}
    ELSE {}
NewFwd(i, f) == LET n == ifs[i].node IN
    IF kind[n] = "router" /\ f.k \in {"ereq", "erep"} /\ f.idst \notin IpsOf(n)
    THEN {[n |-> n, k |-> f.k, isrc |-> f.isrc, idst |-> f.idst, id |-> f.id, seq |-> f.seq]}
    ELSE {}
NewTok(i, f) == LET n == ifs[i].node IN
    IF f.k = "erep" /\ (IF kind[n] = "host" THEN f.idst \in IpsOf(n) ELSE OwnUp(n, f.idst))
    THEN {[n |-> n, id |-> f.id, fid |-> f.fid]}
    ELSE {}

\* the cache after a frame came in on interface i: the frame's source (Node.receive_frame), then for an ARP reply the
\* packet's sender (ARP._process_arp_reply; a router only when the reply is for the receiving interface)
Learnt(c, i, f) == LET n == ifs[i].node  c1 == Learn(c, n, f.isrc, Esrc(f), i) IN
    IF f.k = "arep" /\ (kind[n] = "host" \/ f.tip = ifs[i].ip) THEN Learn(c1, n, f.sip, f.smac, i) ELSE c1
\* Node.receive_frame / Router.receive_frame: learn the sender, then hand the frame to the ARP / ICMP handler
Rx(i, fid) ==
    /\ i \in Ifs /\ \E f \in wire : f.fid = fid
    /\ LET f == FrameOf(fid)  n == ifs[i].node IN
       /\ Deliverable(i, f)
       /\ got' = got \cup {<<fid, i>>}
       /\ cache' = [cache EXCEPT ![n] = Learnt(@, i, f)]
       /\ owed' = owed \cup NewOwed(i, f)
       /\ fwd' = fwd \cup NewFwd(i, f)
       /\ tok' = tok \cup NewTok(i, f)
       /\ act' = <<"Rx", f.k, i, fid>>
    /\ UNCHANGED <<cvars, power, up, tally, ping, ask, wire, nfid, last>>

\* a router's ACL refuses an ICMP / data frame before anything is learnt (Acl module: free here)
RxDeny(i, fid) ==
    /\ i \in Ifs /\ \E f \in wire : f.fid = fid
    /\ LET f == FrameOf(fid) IN
       /\ Deliverable(i, f) /\ kind[ifs[i].node] = "router" /\ f.k \in {"ereq", "erep", "data"}
       /\ got' = got \cup {<<fid, i>>}
       /\ act' = <<"RxDeny", f.k, i, fid>>
    /\ UNCHANGED <<cvars, power, up, cache, tally, ping, ask, owed, fwd, tok, wire, nfid, last>>

\* ICMP._process_icmp_echo_reply
CountReply(n, id) ==
    /\ \E t \in tok : t.n = n /\ t.id = id
    /\ tok' = tok \ {CHOOSE t \in tok : t.n = n /\ t.id = id}
    /\ tally' = [tally EXCEPT ![n] =
                    [x \in DOMAIN @ \cup {id} |-> IF x = id THEN Count(n, id) + 1 ELSE @[x]]]
    /\ act' = <<"CountReply", n, id>>
    /\ UNCHANGED <<cvars, power, up, cache, ping, ask, owed, fwd, wire, got, nfid, last>>

\* a reply that is owed but cannot be sent: the interface it has to leave through is down, or (echo reply) the way
\* back is not resolved
Excused(o) ==
    IF o.k = "arep" THEN ~up[o.via] \/ ~power[o.n] \/ LocalUpIf(o.n, o.to) = {}
    ELSE LET hop == IF LocalUpIf(o.n, o.to) # {} THEN o.to ELSE IF kind[o.n] = "host" THEN gw[o.n] ELSE 0 IN
         ~power[o.n] \/ hop = 0 \/ hop \notin DOMAIN cache[o.n] \/ ~up[cache[o.n][hop].ifc]
OwnersAnswered == \A o \in owed : Excused(o)
RepliesCounted == \A t \in tok : ~power[t.n]
\* the top-level call returns: nothing stays on the wire
Quiet ==
    /\ ping.n = 0
    /\ OwnersAnswered /\ RepliesCounted /\ \A n \in Nodes : AskSent(n)
    /\ owed' = {} /\ fwd' = {} /\ tok' = {} /\ wire' = {} /\ got' = {}
    /\ ask' = [n \in Nodes |-> NoAsk]
    /\ act' = <<"Quiet">>
    /\ UNCHANGED <<cvars, power, up, cache, tally, ping, nfid, last>>

------------------------------------------------------------------------------
SetIf(i, en) ==
    /\ i \in Ifs
    /\ en => power[ifs[i].node]
    /\ up' = [up EXCEPT ![i] = en]
    /\ act' = <<"SetIf", i, en>>
    /\ UNCHANGED <<cvars, power, cache, tally, ping, ask, owed, fwd, tok, wire, got, nfid, last>>

\* a node leaves / reaches the ON state; leaving it takes every interface down
SetPower(n, on) ==
    /\ n \in Nodes
    /\ power' = [power EXCEPT ![n] = on]
    /\ up' = IF on THEN up ELSE [i \in Ifs |-> IF ifs[i].node = n THEN FALSE ELSE up[i]]
    /\ act' = <<"SetPower", n, on>>
    /\ UNCHANGED <<cvars, cache, tally, ping, ask, owed, fwd, tok, wire, got, nfid, last>>

\* ARP.clear
ClearCache(n) ==
    /\ n \in Nodes
    /\ cache' = [cache EXCEPT ![n] = Empty]
    /\ act' = <<"ClearCache", n>>
    /\ UNCHANGED <<cvars, power, up, tally, ping, ask, owed, fwd, tok, wire, got, nfid, last>>

------------------------------------------------------------------------------
\* state clauses
\* an entry names an own interface and the MAC of an interface on that interface's segment: the owner of the
\* address, or a router (an address behind it was learnt from a frame it forwarded)
CacheEntriesTruthful ==
    \A n \in Nodes : \A ip \in DOMAIN cache[n] :
        LET e == cache[n][ip] IN
        /\ e.ifc \in IfsOf(n) /\ ip \notin IpsOf(n)
        /\ \E j \in Ifs : /\ ifs[j].mac = e.mac /\ ifs[j].seg = ifs[e.ifc].seg /\ ifs[j].node # n
                          /\ (ifs[j].ip = ip \/ kind[ifs[j].node] = "router")
UpImpliesPower == \A i \in Ifs : up[i] => power[ifs[i].node]
\* replies are owed only by the owner of the requested / pinged address
OwedOnlyByOwner == \A o \in owed :
    IF o.k = "arep" THEN o.via \in IfsOf(o.n)
    ELSE \E f \in wire : f.k = "ereq" /\ f.id = o.id /\ f.seq = o.seq /\ f.idst \in IpsOf(o.n)
\* a ping of n requests: at most n sent, at most as many replies as requests
AtMostNReplies ==
    ping.n # 0 => /\ ping.sent <= ping.cnt
                  /\ Count(ping.n, ping.id) + Cardinality({t \in tok : t.n = ping.n /\ t.id = ping.id}) <= ping.sent
\* every frame on the wire left a live interface (nothing changes power while a call is in progress)
WireFromLive == \A f \in wire : power[ifs[f.out].node] /\ up[f.out]
PingTrueIffAllAnswered == last.n # 0 => (last.res <=> (last.cnt >= 1 /\ last.answered = last.cnt))
\* a ping that returned True was addressed to an address some live interface owns (evaluated when it returns)
UnreachableGivesFalse ==
    (act[1] = "PingEnd" /\ last.res) => \E i \in Ifs : ifs[i].ip = last.tgt /\ up[i] /\ power[ifs[i].node]
\* the cache changes only when a frame is received or it is cleared, and an existing entry never changes
CacheStep ==
    \A n \in Nodes : cache'[n] # cache[n] =>
        \/ act'[1] = "ClearCache"
        \/ /\ act'[1] = "Rx"
           /\ \A ip \in DOMAIN cache[n] : ip \in DOMAIN cache'[n] /\ cache'[n][ip] = cache[n][ip]
           /\ Cardinality(DOMAIN cache'[n]) \in {Cardinality(DOMAIN cache[n]) + 1, Cardinality(DOMAIN cache[n]) + 2}
=============================================================================
