----------------------------- MODULE Apa_Link -----------------------------
(***************************************************************************)
(* Unbounded argument for the DESIGN of Link.tla (property C18), checked   *)
(* with Apalache: an inductive invariant over ALL bandwidths, ALL frame    *)
(* sizes and nesting up to MaxNest (the depth of replies sent inside a     *)
(* delivery).  Extra evidence only - the verdict of C18 never relies on it *)
(* (DESIGN.md section 8).  The actions are those of MC_Link, variant       *)
(* "design" (account a frame when it is admitted).                         *)
(*   apalache-mc check --init=IndInit --inv=IndInv --length=1 Apa_Link.tla *)
(*   apalache-mc check --init=Init --inv=IndInv --length=0 Apa_Link.tla    *)
(***************************************************************************)
EXTENDS Integers, Sequences, Apalache

MaxNest == 3

VARIABLES
    \* @type: Int;
    bw,
    \* @type: Bool;
    wireless,
    \* @type: Bool;
    upA,
    \* @type: Bool;
    upB,
    \* @type: Int;
    carried,
    \* @type: Int;
    load,
    \* @type: Seq(Int);
    stack

\* @type: (Int, Int) => Int;
Plus(a, b) == a + b
SumSeq(s) == ApaFoldSeqLeft(Plus, 0, s)

Up == wireless \/ (upA /\ upB)
Committed == carried + SumSeq(stack)
AdmitOK(sz) == Up /\ Committed + sz <= bw

Init ==
    /\ bw \in Nat /\ bw >= 1
    /\ wireless \in BOOLEAN
    /\ upA = TRUE /\ upB = TRUE
    /\ carried = 0 /\ load = 0 /\ stack = <<>>

PreTick ==
    /\ stack = <<>>
    /\ carried' = 0 /\ load' = 0
    /\ UNCHANGED <<bw, wireless, upA, upB, stack>>

Send ==
    \E sz \in Nat :
        /\ sz >= 1
        /\ Len(stack) < MaxNest
        /\ IF AdmitOK(sz)
           THEN /\ stack' = Append(stack, sz)
                /\ load' = load + sz
                /\ UNCHANGED <<bw, wireless, upA, upB, carried>>
           ELSE UNCHANGED <<bw, wireless, upA, upB, carried, load, stack>>

Finish ==
    \E received \in BOOLEAN :
        /\ Len(stack) >= 1
        /\ LET sz == stack[Len(stack)] IN
            /\ stack' = SubSeq(stack, 1, Len(stack) - 1)
            /\ carried' = IF received THEN carried + sz ELSE carried
            /\ load' = IF received THEN load ELSE load - sz
        /\ UNCHANGED <<bw, wireless, upA, upB>>

Toggle ==
    /\ stack = <<>>
    /\ ~wireless
    /\ \/ (upA' = ~upA /\ upB' = upB)
       \/ (upB' = ~upB /\ upA' = upA)
    /\ UNCHANGED <<bw, wireless, carried, load, stack>>

Next == PreTick \/ Send \/ Finish \/ Toggle

\* the inductive invariant: types, the reported load is what was committed, and that never exceeds the bandwidth
IndInv ==
    /\ bw >= 1 /\ carried >= 0
    /\ Len(stack) <= MaxNest
    /\ \A i \in DOMAIN stack : stack[i] >= 1
    /\ load = Committed
    /\ load <= bw
    /\ carried <= bw

IndInit ==
    /\ bw = Gen(1) /\ wireless = Gen(1) /\ upA = Gen(1) /\ upB = Gen(1)
    /\ carried = Gen(1) /\ load = Gen(1) /\ stack = Gen(3)
    /\ IndInv
=============================================================================
