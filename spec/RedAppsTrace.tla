---------------------------- MODULE RedAppsTrace ----------------------------
(* Trace validation of recorded histories of the real red applications      *)
(* against RedApps.tla (batch idiom of LinkTrace.tla).                      *)
(*                                                                          *)
(* trace: cfg = [pScan, pAtk, dmRepeat, dmPayload, dosP, dosRepeat, dosMax, *)
(*               dosInt, hasClient, strict, tgt (record bot -> bool),       *)
(*               app0 (record app -> "CLOSED" | "ABSENT")]                  *)
(* event: [ev |-> name of the RedApps action (or "Raised"),                 *)
(*         a (application), h (host), b, off, ok (arguments / results),     *)
(*         s |-> the projection RedApps!Proj read from the real objects     *)
(*               after the call returned]                                   *)
EXTENDS RedApps, TLC, TLCExt, Json, IOUtils, Sequences

Traces == JsonDeserialize(IOEnv.TRACE_FILE)

VARIABLES tid, l
tvars == <<rvars, tid, l>>

T == Traces[tid].ev
Cfg == Traces[tid].cfg

Phase == {"DmLogon", "DmScan", "DmManip", "DmEnd", "RwEncrypt", "RwEnd", "DosScan", "DosAttack", "DosEnd"}
\* the phase of the loop an event belongs to
PcOf(e) == CASE e.ev = "DmLogon" -> {"dm.logon"} [] e.ev = "DmScan" -> {"dm.scan"} [] e.ev = "DmManip" -> {"dm.manip"}
             [] e.ev = "DmEnd" -> {"dm.end", "dm.skip"}
             [] e.ev = "RwEncrypt" -> {"rw.enc"} [] e.ev = "RwEnd" -> {"rw.end", "rw.skip"}
             [] e.ev = "DosScan" -> {"dos.scan"} [] e.ev = "DosAttack" -> {"dos.attack"}
             [] e.ev = "DosEnd" -> {"dos.end", "dos.skip"}
             [] OTHER -> {"idle"}

\* the fields of the projection an event may change
Owned(e) ==
    CASE e.ev \in {"DmLogon", "DmScan", "DmEnd"} -> {"dmStage"}
      [] e.ev = "DmManip" -> {"dmStage", "db", "conn"}
      [] e.ev = "RwEncrypt" -> {"db", "conn"}
      [] e.ev \in {"DosScan", "DosEnd"} -> {"dosStage"}
      [] e.ev = "DosAttack" -> {"dosStage", "dosConns"}
      [] e.ev \in {"Run", "Close"} -> {"app"}
      [] e.ev = "NodeSet" -> {"on"}
      [] e.ev = "Configure" -> {"tgt"}
      [] e.ev = "Reach" -> {"reach"}
      [] e.ev = "DbFix" -> {"db"}
      [] e.ev = "Reset" -> DOMAIN Proj
      [] e.ev = "Env" -> {"on", "app", "tgt", "db", "reach"}
      [] OTHER -> {}

FreshProj == [on |-> [h \in Hosts |-> TRUE], app |-> app0, tgt |-> cfgTgt, dmStage |-> "NOT_STARTED",
              dosStage |-> "NOT_STARTED", conn |-> [b \in {"dm", "rw"} |-> FALSE], dosConns |-> 0,
              db |-> "GOOD", reach |-> FALSE]

Clauses(e) ==
    LET s == e.s IN
    [ NoException |-> e.ev # "Raised",
      \* C1
      StageOrder |-> e.ev # "Reset" =>
            /\ (s.dmStage # dmStage => DmEdge(dmStage, s.dmStage))
            /\ (s.dosStage # dosStage => DosEdge(dosStage, s.dosStage)),
      \* C2
      GateRespected |->
            /\ (e.ev = "DmScan" /\ pc = "dm.scan") => s.dmStage \in ScanTargets
            /\ (e.ev = "DosScan" /\ pc = "dos.scan") => s.dosStage \in DosScanTargets
            /\ (e.ev = "DmLogon" /\ pc = "dm.logon") => s.dmStage = LogonTarget
            /\ (e.ev = "DosAttack" /\ pc = "dos.attack") => s.dosStage = DosAttackStage,
      \* C3: a phase of a loop is only ever entered when the gate at the loop's entry was open
      NothingUnlessEnabled |-> e.ev \in Phase => pc \in PcOf(e),
      NoInterleaving |-> e.ev \notin Phase => pc = "idle",
      \* C4
      AttackOutcome |->
            /\ (e.ev = "DmManip" /\ pc = "dm.manip") => <<s.dmStage, s.db, s.conn["dm"]>> \in ManipOutcomes
            /\ (e.ev = "RwEncrypt" /\ pc = "rw.enc") => <<e.ok, s.db, s.conn["rw"]>> \in EncryptOutcomes,
      DbOnlyBySuccess |-> s.db # db =>
            \/ e.ev = "DmManip" /\ s.dmStage = "SUCCEEDED" /\ s.db = Effect(dmPayload, db) /\ ClientWorks
            \/ e.ev = "RwEncrypt" /\ e.ok /\ s.db = Effect("ENCRYPT", db) /\ ClientWorks
            \/ e.ev \in {"DbFix", "Reset", "Env"},
      \* C5
      RepeatFollowsSetting |->
            /\ (e.ev = "DmEnd" /\ pc \in PcOf(e)) => s.dmStage = DmEndTarget
            /\ (e.ev = "DosEnd" /\ pc \in PcOf(e)) => s.dosStage = DosEndTarget,
      \* C6
      DosWithinBound |-> s.dosConns <= DosBound,
      DosConnectsOnlyWhenAttacking |-> (e.ev = "DosAttack" /\ pc = "dos.attack") => s.dosConns \in DosAttackConns,
      \* C7
      FreshStart |-> e.ev = "Reset" => s = FreshProj,
      \* C8
      LoopReturn |->
            /\ (e.ev \in {"DmEnd", "DosEnd"} /\ pc \in PcOf(e)) => e.ok = (pc \in {"dm.end", "dos.end"})
            /\ (e.ev = "RwEnd" /\ pc \in PcOf(e)) => e.ok = (pc = "rw.end" /\ ret = "T"),
      ExecStatus |-> e.ev = "Exec" => e.ok = (ret = "T"),
      RunCloseAsDocumented |->
            /\ e.ev = "Run" => s.app[e.a] = RunTarget(e.a)
            /\ e.ev = "Close" => s.app[e.a] = CloseTarget(e.a),
      NothingRunsWhenOff |-> e.ev \notin {"NodeSet", "Close", "Raised"} =>
            \A a \in Apps : off[HostOf(a)] => s.app[a] # "RUNNING",
      NodeStateAsWritten |-> e.ev = "NodeSet" => s.on = [on EXCEPT ![e.h] = e.b],
      ConfigureAsDocumented |-> e.ev = "Configure" => s.tgt = [tgt EXCEPT ![e.a] = ConfigureTarget(e.a, e.b)],
      NoEnvWhenStrict |-> e.ev = "Env" => ~strict,
      FrameUnchanged |-> \A f \in DOMAIN Proj \ Owned(e) : s[f] = Proj[f]
    ]
Failing(e) == LET cl == Clauses(e) IN {c \in DOMAIN cl : ~cl[c]}

Step(e) ==
    LET s == e.s IN
    CASE e.ev = "DmBegin"   -> DmBegin
      [] e.ev = "DmLogon"   -> DmLogon(s.dmStage)
      [] e.ev = "DmScan"    -> DmScan(s.dmStage)
      [] e.ev = "DmManip"   -> DmManip(s.dmStage, s.db, s.conn["dm"])
      [] e.ev = "DmEnd"     -> DmEnd(e.ok, s.dmStage)
      [] e.ev = "RwBegin"   -> RwBegin
      [] e.ev = "RwEncrypt" -> RwEncrypt(e.ok, s.db, s.conn["rw"])
      [] e.ev = "RwEnd"     -> RwEnd(e.ok)
      [] e.ev = "DosBegin"  -> DosBegin
      [] e.ev = "DosScan"   -> DosScan(s.dosStage)
      [] e.ev = "DosAttack" -> DosAttack(s.dosStage, s.dosConns)
      [] e.ev = "DosEnd"    -> DosEnd(e.ok, s.dosStage)
      [] e.ev = "Run"       -> Run(e.a, s.app[e.a])
      [] e.ev = "Close"     -> Close(e.a, s.app[e.a])
      [] e.ev = "NodeSet"   -> NodeSet(e.h, e.b, e.off)
      [] e.ev = "Configure" -> Configure(e.a, e.b)
      [] e.ev = "Reach"     -> Reach(e.b)
      [] e.ev = "DbFix"     -> DbFix
      [] e.ev = "ExecCall"  -> ExecCall(e.a)
      [] e.ev = "Exec"      -> Exec(e.a, e.ok)
      [] e.ev = "Tick"      -> Tick
      [] e.ev = "Reset"     -> Reset
      [] e.ev = "Env"       -> Env(s)
      [] OTHER -> FALSE

TraceInit ==
    /\ tid \in 1..Len(Traces)
    /\ l = 1
    /\ RedInit(Cfg)

TraceNext ==
    /\ l <= Len(T)
    /\ Failing(T[l]) = {}
    /\ Step(T[l])
    /\ Proj' = T[l].s
    /\ l' = l + 1
    /\ UNCHANGED tid

TraceSpec == TraceInit /\ [][TraceNext]_tvars

Seen == TLCGet(tid)
Record ==
    IF l > Seen.pos
    THEN TLCSet(tid, [pos |-> l,
                      fail |-> IF l <= Len(T) THEN Failing(T[l]) ELSE {},
                      st |-> [proj |-> Proj, off |-> off, pc |-> pc, ret |-> ret]])
    ELSE TRUE
InitRegs == \A i \in 1..Len(Traces) : TLCSet(i, [pos |-> 0, fail |-> {}, st |-> <<>>])
ASSUME InitRegs

Report ==
    \A i \in 1..Len(Traces) :
        LET r == TLCGet(i) IN
        /\ PrintT(<<"TRACE", i, r.pos, Len(Traces[i].ev)>>)
        /\ (r.pos = Len(Traces[i].ev) + 1 \/ PrintT(<<"STUCK", i, r.pos, r.fail, r.st>>))
=============================================================================
