SPECIFICATION Spec
CONSTANTS
  MaxStart = 4
  MaxStartVar = 2
  MaxFreq = 4
  MaxExecs = 3
  Ticks = 12
  PerMille = {0, 400, 1000}
  TapMaxStart = 2
  TapMaxFreq = 3
  Variant = "coded_max"
INVARIANT NothingBeforeStart
INVARIANT FirstActionInStartWindow
INVARIANT GapAtLeast
INVARIANT GapAtMost
INVARIANT ExecsBounded
INVARIANT NodeConfigured
INVARIANT StageInChain
INVARIANT RestartBound
INVARIANT NeverActsWhenConcluded
INVARIANT ConcludedIsTerminal
CHECK_DEADLOCK TRUE
