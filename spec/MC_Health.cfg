SPECIFICATION SafetySpec
CONSTANTS
  FixDurs = {0,1,2,3}
  ScanDurs = {1}
  RestDurs = {1}
  NodeDurs = {0,1,2}
  UseSw = TRUE
  FsOps = {"SqlDelete","SqlEncrypt","FileScan"}
  AllowRestart = TRUE
  InitSw = {"GOOD"}
VIEW View
INVARIANT InvNeverOverdue
INVARIANT InvFixClock
INVARIANT InvTypes
PROPERTY SwVisibleOnlyByScan
PROPERTY FileVisibleOnlyByScan
PROPERTY FolderVisibleOnlyByScan
PROPERTY SwActualOnlyByEvent
PROPERTY FileHealthOnlyByEvent
PROPERTY ScanLeavesTruth
PROPERTY FixExactly
PROPERTY ScanInWindow
PROPERTY RestoreInWindow
PROPERTY OsScanInWindow
PROPERTY InstantOnlyAtZero
PROPERTY OffTicksChangeNothing
CHECK_DEADLOCK TRUE
