SPECIFICATION SafetySpec
CONSTANTS
  FixDurs = {1}
  ScanDurs = {0,1,2,3}
  RestDurs = {0,2}
  NodeDurs = {1}
  UseSw = FALSE
  FsOps = {"FileScan","FileCorrupt","FileRepair","FileRestore","SqlDelete","SqlEncrypt","FolderCorrupt","FolderRepair","FolderScan","FolderRestore"}
  AllowRestart = TRUE
  InitSw = {"GOOD"}
VIEW View
INVARIANT InvNeverOverdue
INVARIANT InvFixClock
INVARIANT InvTypes
PROPERTY SwVisibleOnlyByScan
PROPERTY FileVisibleOnlyByScan
PROPERTY FolderVisibleOnlyByScan
PROPERTY SwActualOnlyByEvent
PROPERTY FileHealthOnlyByEvent
PROPERTY ScanLeavesTruth
PROPERTY FixExactly
PROPERTY ScanInWindow
PROPERTY RestoreInWindow
PROPERTY OsScanInWindow
PROPERTY InstantOnlyAtZero
PROPERTY OffTicksChangeNothing
CHECK_DEADLOCK TRUE
