SPECIFICATION Spec
CONSTANTS
  Facet = "svc"
  PowDur = 2
  FixDur = 2
  RestDur = 5
  InstDur = 2
INVARIANT TypeOK
CHECK_DEADLOCK FALSE
