SPECIFICATION Spec
CONSTANTS
  PScan = {100}
  PAtk = {100}
  PDos = {0, 50, 100}
  DosMaxs = {0, 2}
  DosInts = {50, 100}
  Payloads = {"DELETE"}
  Clients = {TRUE}
  Tgts = {TRUE, FALSE}
  Repeats = {TRUE, FALSE}
  Present = {"dos"}
  MaxStim = 99
  AsCoded = "dos"
PROPERTY StageOrder
VIEW View
CHECK_DEADLOCK FALSE
