---------------------------- MODULE AirNmneTrace ----------------------------
(* Trace validation of recorded executions of the real air space / NMNE capture against AirNmne.tla      *)
(* (batch idiom).                                                                                         *)
(*                                                                                                        *)
(* trace: cfg = [n, wl, cap (per frequency, bytes, from the scenario file), capture, kws, by, on, en, fq] *)
(* event: [ev |-> "Tick"|"Drop"|"Begin"|"Deliver"|"End"|"SetEnabled"|"Power"|"Retune"|"Describe"|          *)
(*                "NewEpisode"|"WiredOut"|"WiredIn"|"Raised",                                             *)
(*         i, fr = [sz, src, dst, proto, sport, dport, kw (sequence)], acc, want, ok, f, has, rep,        *)
(*         load, en, on, fq, nm]                                                                          *)
(* load / en / on / fq / nm (per interface: rows [dir, ip, proto, port, kw, n]) and rep are read from the *)
(* real objects after the call returned (Begin: when the frame is on the air, before its first delivery). *)
EXTENDS AirNmne, TLC, TLCExt, Json, IOUtils

Traces == JsonDeserialize(IOEnv.TRACE_FILE)

VARIABLES tid, l
tvars == <<nIf, wl, cap, capture, kws, by, on0, en0, nodeOn, enabled, freq, load, nmne, stack, tid, l>>

T == Traces[tid].ev
Cfg == Traces[tid].cfg
SetOf(s) == {s[x] : x \in 1..Len(s)}
KeyOfRow(r) == [dir |-> r.dir, ip |-> r.ip, proto |-> r.proto, port |-> r.port, kw |-> r.kw]
TableOf(rows) ==
    [k \in {KeyOfRow(rows[x]) : x \in 1..Len(rows)} |->
        rows[CHOOSE x \in 1..Len(rows) : KeyOfRow(rows[x]) = k].n]
Tables(e) == [i \in 1..Len(e.nm) |-> TableOf(e.nm[i])]
FrOf(e) == [sz |-> e.fr.sz, src |-> e.fr.src, dst |-> e.fr.dst, proto |-> e.fr.proto,
            sport |-> e.fr.sport, dport |-> e.fr.dport, kw |-> SetOf(e.fr.kw)]

Out(e) == e.ev \in {"Begin", "WiredOut"}
In(e) == e.ev \in {"Deliver", "WiredIn"}
Wireless(e) == e.ev \in {"Drop", "Begin", "Deliver", "Retune"}
Addressed(e) == e.ev \in {"Drop", "Begin", "Deliver", "SetEnabled", "Power", "Retune", "Describe", "WiredOut", "WiredIn"}
OnAir == stack # <<>>

ExpLoad(e) ==
    CASE e.ev = "Tick" -> Zero
      [] e.ev = "Begin" -> [load EXCEPT ![freq[e.i]] = @ + e.fr.sz]
      [] OTHER -> load
ExpEn(e) ==
    CASE e.ev \in {"SetEnabled", "Power"} -> IF e.ok THEN [enabled EXCEPT ![e.i] = e.want] ELSE enabled
      [] e.ev = "Retune" -> [enabled EXCEPT ![e.i] = nodeOn[e.i]]
      [] e.ev = "NewEpisode" -> en0
      [] OTHER -> enabled
ExpOn(e) ==
    CASE e.ev = "Power" /\ e.ok -> [nodeOn EXCEPT ![e.i] = e.want]
      [] e.ev = "NewEpisode" -> on0
      [] OTHER -> nodeOn
ExpFq(e) == IF e.ev = "Retune" THEN [freq EXCEPT ![e.i] = e.f] ELSE freq

\* named clauses (A1..A6, N1..N5 of AirNmne.tla and the binding of the logged values): predicates of
\* (current spec state, event)
Clauses(e) ==
    LET fr == FrOf(e)
        nm == Tables(e)
        wf == (Addressed(e) => e.i \in Ifs) /\ (Wireless(e) => wl[e.i]) /\ (e.ev \in {"WiredOut", "WiredIn"} => ~wl[e.i])
                /\ Len(e.nm) = nIf /\ Len(e.en) = nIf /\ Len(e.on) = nIf /\ Len(e.fq) = nIf
    IN
    [ NoException |-> e.ev # "Raised",
      WellFormedEvent |-> wf,
      ReceivedOnlyByOthersOnFrequency |-> (wf /\ e.ev = "Deliver") => (OnAir /\ e.i \in Top.exp),
      ReceivedAtMostOnce |-> (wf /\ e.ev = "Deliver" /\ OnAir) => e.i \notin Top.got,
      SenderNeverReceivesOwnFrame |-> (wf /\ e.ev = "Deliver" /\ OnAir) => e.i # Top.snd,
      ReceivedByAllOthersOnFrequency |-> e.ev = "End" => (OnAir /\ Top.got = Top.exp),
      DisabledNeitherSendsNorReceives |-> (wf /\ e.ev \in {"Begin", "Deliver"}) => enabled[e.i],
      EnabledOnlyIfNodeOn |-> wf => \A i \in Ifs : e.en[i] => e.on[i],
      LoadWithinCapacity |-> \A f \in Freqs : e.load[f] <= cap[f],
      LoadResetsEachTimestep |-> e.ev = "Tick" => (e.load = Zero /\ ~OnAir),
      OverCapacityDroppedForEveryone |-> (wf /\ e.ev = "Begin") => Fits(e.i, fr),
      NothingReceivedUnlessTransmitted |-> e.ev = "Deliver" => OnAir,
      DeliveredFrameIsTheOneOnAir |-> (e.ev = "Deliver" /\ OnAir) => fr = Top.fr,
      NoDropWithoutReason |-> (wf /\ e.ev = "Drop") => (~enabled[e.i] \/ ~Fits(e.i, fr)),
      LoadAccountsTransmittedFrames |->
          wf => IF e.ev = "NewEpisode" THEN e.load \in {load, Zero} ELSE e.load = ExpLoad(e),
      OnlyKeywordFramesCount |-> (wf /\ (Out(e) \/ In(e)) /\ ~Malicious(fr)) => nm = nmne,
      CountedOnceInItsDirectionUnderItsKey |->
          /\ (wf /\ Out(e) /\ Malicious(fr)) => nm[e.i] = Captured(e.i, fr, "outbound")
          /\ (wf /\ In(e) /\ Malicious(fr)) => nm[e.i] \in InboundAllowed(e.i, fr, e.acc),
      OtherCountsUntouched |->
          wf => IF Out(e) \/ In(e) THEN \A j \in Ifs \ {e.i} : nm[j] = nmne[j]
                ELSE (e.ev # "NewEpisode" => nm = nmne),
      CountsNeverDecreaseWithinEpisode |-> (wf /\ e.ev # "NewEpisode") => NoCountDecreases(nmne, nm),
      NothingCapturedWhenOffOrNoKeywords |-> (wf /\ (~capture \/ kws = {})) => \A i \in Ifs : nm[i] = Empty,
      EpisodeStartsFromZero |-> (wf /\ e.ev = "NewEpisode") => \A i \in Ifs : nm[i] = Empty,
      DescribeStateReportsTheCounts |->
          (wf /\ e.ev = "Describe") => ((capture => e.has) /\ (e.has => TableOf(e.rep) = nmne[e.i])),
      RequestOutcomeAsDocumented |->
          /\ (wf /\ e.ev = "SetEnabled") =>
                (((e.want /\ ~nodeOn[e.i]) => ~e.ok) /\ ((e.want # enabled[e.i] /\ (e.want => nodeOn[e.i])) => e.ok))
          /\ (wf /\ e.ev = "Power") => ((e.want # nodeOn[e.i]) => e.ok),
      InterfaceStateAsSpecified |-> wf => (e.en = ExpEn(e) /\ e.on = ExpOn(e) /\ e.fq = ExpFq(e)),
      SendOutcomeAsDocumented |-> (e.ev = "End" => e.ok) /\ (e.ev = "Drop" => ~e.ok),
      UnusedFieldsAreBlank |->
          /\ (~(Out(e) \/ In(e) \/ e.ev = "Drop")) => (e.fr.sz = 0 /\ e.fr.kw = <<>> /\ e.fr.src = "" /\ e.fr.dst = "")
          /\ (~In(e)) => ~e.acc
          /\ (e.ev \notin {"SetEnabled", "Power"}) => ~e.want
          /\ (e.ev \notin {"SetEnabled", "Power", "End", "Drop"}) => ~e.ok
          /\ (e.ev # "Retune") => e.f = 0
          /\ (e.ev # "Describe") => (~e.has /\ e.rep = <<>>)
          /\ (~Addressed(e) /\ e.ev # "End") => e.i = 0,
      AirIdleBetweenStimuli |-> e.ev \in {"Tick", "NewEpisode"} => ~OnAir
    ]
Failing(e) == LET cl == Clauses(e) IN {c \in DOMAIN cl : ~cl[c]}

Step(e) ==
    CASE e.ev = "Tick"       -> Tick
      [] e.ev = "Drop"       -> Drop(e.i, FrOf(e))
      [] e.ev = "Begin"      -> Begin(e.i, FrOf(e))
      [] e.ev = "Deliver"    -> Deliver(e.i, e.acc, Tables(e)[e.i])
      [] e.ev = "End"        -> End
      [] e.ev = "SetEnabled" -> SetEnabled(e.i, e.want, e.ok)
      [] e.ev = "Power"      -> Power(e.i, e.want, e.ok)
      [] e.ev = "Retune"     -> Retune(e.i, e.f)
      [] e.ev = "Describe"   -> Describe(e.i, e.has, TableOf(e.rep))
      [] e.ev = "NewEpisode" -> NewEpisode(e.load)
      [] e.ev = "WiredOut"   -> WiredOut(e.i, FrOf(e))
      [] e.ev = "WiredIn"    -> WiredIn(e.i, FrOf(e), e.acc, Tables(e)[e.i])
      [] OTHER -> FALSE

TraceInit ==
    /\ tid \in 1..Len(Traces)
    /\ l = 1
    /\ AirNmneInit(Cfg.n, Cfg.wl, Cfg.cap, Cfg.capture, SetOf(Cfg.kws), Cfg.by, Cfg.on, Cfg.en, Cfg.fq)

TraceNext ==
    /\ l <= Len(T)
    /\ Failing(T[l]) = {}
    /\ Step(T[l])
    /\ l' = l + 1
    /\ UNCHANGED tid

TraceSpec == TraceInit /\ [][TraceNext]_tvars

RowsOf(t) == {[k |-> k, n |-> t[k]] : k \in DOMAIN t}
Seen == TLCGet(tid)
Record ==
    IF l > Seen.pos
    THEN TLCSet(tid, [pos |-> l,
                      fail |-> IF l <= Len(T) THEN Failing(T[l]) ELSE {},
                      st |-> [en |-> enabled, on |-> nodeOn, fq |-> freq, load |-> load,
                              nm |-> [i \in Ifs |-> RowsOf(nmne[i])],
                              air |-> [k \in 1..Len(stack) |-> [snd |-> stack[k].snd, exp |-> stack[k].exp, got |-> stack[k].got]]]])
    ELSE TRUE
InitRegs == \A i \in 1..Len(Traces) : TLCSet(i, [pos |-> 0, fail |-> {}, st |-> <<>>])
ASSUME InitRegs

Report ==
    \A i \in 1..Len(Traces) :
        LET r == TLCGet(i) IN
        /\ PrintT(<<"TRACE", i, r.pos, Len(Traces[i].ev)>>)
        /\ (r.pos = Len(Traces[i].ev) + 1 \/ PrintT(<<"STUCK", i, r.pos, r.fail, r.st>>))
=============================================================================
