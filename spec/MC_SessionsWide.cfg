SPECIFICATION Spec
CONSTANTS
  Users = {"admin", "u1"}
  Passwords = {"p", "q", "wrong"}
  NewPasswords = {"p", "q"}
  Clients0 = {"b", "c"}
  MaxRemotes = {1, 2}
  Timeouts = {1, 3}
  MaxDepth = 7
  MaxSid = 3
  SimMode = FALSE
CONSTRAINT Bound
INVARIANT C_LoginNeedsCredentials
INVARIANT C_LoginNeedsPower
INVARIANT C_LoginRespectsLimit
INVARIANT C_RemoteBound
INVARIANT C_ExecOnlyIfLive
INVARIANT C_NoExecAfterEnd
INVARIANT C_LastAdminStays
INVARIANT C_Binding
INVARIANT InvRemoteBound
INVARIANT InvLastAdmin
INVARIANT InvEndedUnable
CHECK_DEADLOCK FALSE
