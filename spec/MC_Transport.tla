---------------------------- MODULE MC_Transport ----------------------------
(* Exhaustive model of Transport for one host: a service s1 and an          *)
(* application a1 that share port 1 / tcp, a service s2 on port 2 / udp     *)
(* that also listens on port 1; port 3 belongs to nobody; peers 1 and 2,    *)
(* address 9 cannot be resolved.  Stimuli (only when the previous call has  *)
(* returned): install / uninstall, start / stop / pause / resume / run /    *)
(* close, power off / on, a new outbound conversation, an inbound frame     *)
(* (optionally one that asks the receiver for an answer on its session),    *)
(* connections, SessionManager.clear, get_open_ports.  Between stimuli the  *)
(* model takes the steps of the inbound pipeline (session, deliveries in    *)
(* every order, answers, end of dispatch) and of a power change.            *)
(* Negative configurations TLC must refute: ShadowAsCoded (a registered     *)
(* owner that is not running shadows running software on the same pair:     *)
(* the payload is dropped) against ServedWhenOpen; ReplyAsCoded (an answer  *)
(* is addressed own port -> own port) with Asym frames against              *)
(* ReplyOnSameSession.                                                      *)
EXTENDS Transport, TLC

CONSTANTS MaxStim, MaxSess, Asym, ShadowAsCoded, ReplyAsCoded, Peers, Tomes, Full

VARIABLES nstim,   \* stimuli so far
          todo,    \* software still to be stopped / started after a power change
          echo,    \* the frame in flight asks for an answer
          owe      \* the receiver that owes the answer
mvars == <<vars, nstim, todo, echo, owe>>

SW == {"s1", "a1", "s2"}
CAT == [n \in SW |->
          IF n = "s1" THEN [port |-> 1, proto |-> "tcp", svc |-> TRUE, listen |-> {}, max |-> 2, track |-> TRUE]
          ELSE IF n = "a1" THEN [port |-> 1, proto |-> "tcp", svc |-> FALSE, listen |-> {}, max |-> 1, track |-> TRUE]
          ELSE [port |-> 2, proto |-> "udp", svc |-> TRUE, listen |-> {1}, max |-> 2, track |-> TRUE]]
Dead == 9
Protos == {"tcp", "udp"}
PortPairs == {<<1, 1>>, <<2, 2>>, <<3, 3>>} \cup (IF Asym THEN {<<4, 1>>} ELSE {})
Frames == {[proto |-> p, ip |-> i, sp |-> pp[1], dp |-> pp[2], kind |-> "data", tome |-> t] :
              p \in Protos, i \in Peers, pp \in PortPairs, t \in Tomes}

Init ==
    /\ IF Full   \* everything installed (s1, s2, a1 in this order) and running
       THEN TInit(CAT, "ON", <<"s1", "s2", "a1">>, [n \in SW |-> "RUNNING"],
                  (<<1, "tcp">> :> "a1") @@ (<<2, "udp">> :> "s2"), {}, [n \in SW |-> {}])
       ELSE TInit(CAT, "ON", <<>>, [n \in SW |-> "NONE"], <<>>, {}, [n \in SW |-> {}])
    /\ nstim = 0 /\ todo = {} /\ echo = FALSE /\ owe = ""

Idle == stack = <<>> /\ todo = {} /\ owe = ""
Stim == Idle /\ nstim < MaxStim /\ nstim' = nstim + 1
Keep == UNCHANGED <<todo, echo, owe>>
Room(k) == k \in sessions \/ Cardinality(sessions) < MaxSess

Restrict(f, S) == [k \in S |-> f[k]]
HandBacks(n) ==
    LET k == KeyOf(n)
        R == Claimants(k) \ {n} IN
    IF k \in DOMAIN owner /\ owner[k] = n
    THEN IF R = {} THEN {Restrict(owner, DOMAIN owner \ {k})} ELSE {[owner EXCEPT ![k] = m] : m \in R}
    ELSE {owner}

--------------------------------------------------------------------------
\* stimuli
MInstall(n) == Stim /\ Install(n, DesignInstallState(n), OwnerAfterInstall(n)) /\ Keep
MUninstall(n) == Stim /\ n \in Installed /\ (\E ow \in HandBacks(n) : Uninstall(n, ow)) /\ Keep
MStart(n) == Stim /\ n \in Installed /\ cat[n].svc /\ op[n] = "STOPPED" /\ power = "ON" /\ SetOp(n, "RUNNING") /\ Keep
MStop(n) == Stim /\ n \in Installed /\ cat[n].svc /\ op[n] \in {"RUNNING", "PAUSED"} /\ SetOp(n, "STOPPED") /\ Keep
MPause(n) == Stim /\ n \in Installed /\ cat[n].svc /\ op[n] = "RUNNING" /\ SetOp(n, "PAUSED") /\ Keep
MResume(n) == Stim /\ n \in Installed /\ cat[n].svc /\ op[n] = "PAUSED" /\ power = "ON" /\ SetOp(n, "RUNNING") /\ Keep
MRun(n) == Stim /\ n \in Installed /\ ~cat[n].svc /\ op[n] = "CLOSED" /\ power = "ON" /\ SetOp(n, "RUNNING") /\ Keep
MClose(n) == Stim /\ n \in Installed /\ ~cat[n].svc /\ op[n] = "RUNNING" /\ SetOp(n, "CLOSED") /\ Keep
MPowerOff == /\ Stim /\ power = "ON" /\ Power("OFF")
             /\ todo' = {n \in Installed : op[n] \in {"RUNNING", "PAUSED"}} /\ UNCHANGED <<echo, owe>>
MPowerOn == /\ Stim /\ power = "OFF" /\ Power("ON")
            /\ todo' = {n \in Installed : op[n] \in {"STOPPED", "CLOSED"}} /\ UNCHANGED <<echo, owe>>
MSendNew(n, proto, ip, dp) ==
    /\ Stim /\ Running(n) /\ power = "ON"
    /\ Room(OutKey(proto, ip, dp, dp))
    /\ IF ip = Dead THEN SendNew(proto, ip, dp, FALSE, 0, 0, FALSE, <<>>)
       ELSE SendNew(proto, ip, dp, TRUE, dp, dp, OutKey(proto, ip, dp, dp) \notin sessions, OutKey(proto, ip, dp, dp))
    /\ Keep
MFrame(f, e) ==
    /\ Stim /\ Room(InKey(f))
    /\ \/ MayAccept(f) /\ Accept(f) /\ echo' = e
       \/ ~MustAccept(f) /\ Drop(f) /\ echo' = FALSE
    /\ UNCHANGED <<todo, owe>>
MAddConn(n, c) == Stim /\ n \in Installed /\ AddConn(n, c, AddConnExpected(n, c)) /\ Keep
MTermConn(n, c) == Stim /\ n \in Installed /\ TermConn(n, c) /\ Keep
MClearConns(n) == Stim /\ n \in Installed /\ conns[n] # {} /\ ClearConns(n) /\ Keep
MClear == Stim /\ sessions # {} /\ Clear /\ Keep
MOpenPorts == Stim /\ OpenPorts /\ Keep

--------------------------------------------------------------------------
\* the code's own steps
MSettle(n) ==
    /\ n \in todo
    /\ SetOp(n, IF power = "ON" THEN "RUNNING" ELSE IF cat[n].svc THEN "STOPPED" ELSE "CLOSED")
    /\ todo' = todo \ {n} /\ UNCHANGED <<nstim, echo, owe>>
MSessIn ==
    /\ stack # <<>> /\ Top.phase = "accepted"
    /\ SessIn(InKey(Top.f) \notin sessions, InKey(Top.f))
    /\ UNCHANGED <<nstim, todo, echo, owe>>
MDeliver(n) ==
    /\ stack # <<>> /\ Top.phase = "dispatch" /\ owe = ""
    /\ IF ShadowAsCoded THEN n \in Top.pending ELSE DeliverAllowed(n)
    /\ Deliver(n)
    /\ owe' = IF echo THEN n ELSE ""
    /\ UNCHANGED <<nstim, todo, echo>>
MReply ==
    /\ owe # "" /\ stack # <<>>
    /\ LET s == InKey(Top.f)
           f == IF ReplyAsCoded THEN <<s[1], s[2], s[4], s[4]>> ELSE <<s[1], s[2], s[4], s[3]>> IN
       SendSess(s, TRUE, f, OutKey(f[1], f[2], f[3], f[4]) \notin sessions, OutKey(f[1], f[2], f[3], f[4]))
    /\ owe' = ""
    /\ UNCHANGED <<nstim, todo, echo>>
MDispatchEnd ==
    /\ stack # <<>> /\ Top.phase = "dispatch" /\ owe = "" /\ Top.pending = {}
    /\ (ShadowAsCoded \/ Standby(Top.f) = {} \/ Top.got \cap Standby(Top.f) # {})
    /\ DispatchEnd
    /\ echo' = FALSE
    /\ UNCHANGED <<nstim, todo, owe>>

AInstall == \E n \in SW : MInstall(n)
AUninstall == \E n \in SW : MUninstall(n)
AStart == \E n \in SW : MStart(n)
AStop == \E n \in SW : MStop(n)
APause == \E n \in SW : MPause(n)
AResume == \E n \in SW : MResume(n)
ARun == \E n \in SW : MRun(n)
AClose == \E n \in SW : MClose(n)
ASendNew == \E n \in SW, p \in Protos, i \in Peers \cup {Dead}, d \in {1, 3} : MSendNew(n, p, i, d)
AFrame == \E f \in Frames, e \in BOOLEAN : MFrame(f, e)
AAddConn == \E n \in SW, c \in 1..3 : MAddConn(n, c)
ATermConn == \E n \in SW, c \in 1..3 : MTermConn(n, c)
AClearConns == \E n \in SW : MClearConns(n)
ASettle == \E n \in SW : MSettle(n)
ADeliver == \E n \in SW : MDeliver(n)
Next ==
    \/ AInstall \/ AUninstall \/ AStart \/ AStop \/ APause \/ AResume \/ ARun \/ AClose \/ MPowerOff \/ MPowerOn
    \/ ASendNew \/ AFrame \/ AAddConn \/ ATermConn \/ AClearConns \/ MClear \/ MOpenPorts
    \/ ASettle \/ MSessIn \/ ADeliver \/ MReply \/ MDispatchEnd
Spec == Init /\ [][Next]_mvars

OpView == [n \in SW |-> IF n \in Installed THEN op[n] ELSE "-"]
View == <<power, inst, OpView, owner, sessions, conns, stack, ReplyOnSameSession, served, nstim, todo, echo, owe>>

\* clauses of the model that need the model's own variables
NothingRunsWhenOff == (power = "OFF" /\ todo = {}) => RunningSet = {}
RunsOnlyWhenOnInv == (power # "ON" /\ todo = {}) => RunningSet = {}
SessionsGrowByConversation == [][SessionsStep]_mvars
=============================================================================
