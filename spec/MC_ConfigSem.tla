---------------------------- MODULE MC_ConfigSem ----------------------------
(* Order-insensitivity of scenario loading (C20, second sentence), on the    *)
(* abstract builder of ConfigSem.tla: a declaration is a set of facts; each  *)
(* fact is built by its own action as soon as the node(s) it refers to       *)
(* exist; TLC explores EVERY order and checks                                *)
(*    PrefixIsExpected : after any subset of the steps the inventory is      *)
(*                       Expected(the facts built so far)                    *)
(*    BuiltIsExpected  : when nothing is left, the inventory is              *)
(*                       Expected(decl) - the same for every order           *)
(*    Progress         : some step is always enabled until nothing is left   *)
(* The declarations exercise every defaulting rule and every overriding one: *)
(* a rule at the position of a default rule, a declared `admin', a declared  *)
(* piece of system software, option vs node-level dns_server, a file in an   *)
(* undeclared folder, an extra interface on a host.                          *)
EXTENDS ConfigSem

VARIABLES decl, todo
mcvars == <<inv, decl, todo>>

Rule(a, p, sp, dp) == <<a, p, "ANY", "ANY", "ANY", "ANY", sp, dp>>

D1 == { Fact("node", <<"r">>, <<"router", "", "", "">>),
        Fact("node", <<"c">>, <<"computer", "OFF", "0", "">>),
        Fact("nports", <<"r">>, <<"3">>),
        Fact("nic", <<"r", "1">>, <<"10.0.0.1", "">>),
        Fact("nic", <<"c", "1">>, <<"10.0.0.2", "">>),
        Fact("nic", <<"c", "2">>, <<"10.0.1.2", "255.255.255.252">>),
        Fact("nodeopt", <<"c", "dns_server">>, <<"10.0.0.8">>),
        Fact("software", <<"c", "dns-client">>, <<"service">>),
        Fact("opt", <<"c", "dns-client", "dns_server">>, <<"10.0.0.9">>),
        Fact("software", <<"c", "database-service">>, <<"service">>),
        Fact("opt", <<"c", "database-service", "fixing_duration">>, <<"4">>),
        Fact("acl", <<"r", "acl", "5">>, Rule("DENY", "tcp", "ANY", "80")),
        Fact("acl", <<"r", "acl", "22">>, Rule("DENY", "udp", "ANY", "ANY")),
        Fact("link", <<"c", "1", "r", "1">>, <<"">>),
        Fact("user", <<"r", "admin">>, <<"s3cret", "">>),
        Fact("file", <<"c", "docs", "a.txt">>, <<"", "TXT">>),
        Fact("agent", <<"green">>, <<"periodic-agent", "GREEN", "0">>) }

D2 == { Fact("node", <<"f">>, <<"firewall", "", "", "2">>),
        Fact("node", <<"s">>, <<"server", "", "", "">>),
        Fact("node", <<"w">>, <<"switch", "", "", "">>),
        Fact("nic", <<"s", "1">>, <<"10.0.0.2", "255.255.255.240">>),
        Fact("nic", <<"f", "2">>, <<"10.0.0.1", "">>),
        Fact("nodeopt", <<"s", "dns_server">>, <<"10.0.0.8">>),
        Fact("software", <<"s", "web-server">>, <<"service">>),
        Fact("software", <<"s", "web-browser">>, <<"application">>),
        Fact("acl", <<"f", "internal_inbound_acl", "1">>, Rule("PERMIT", "ANY", "ANY", "ANY")),
        Fact("route", <<"f", "10.9.0.0", "", "10.0.0.2">>, <<"">>),
        Fact("defroute", <<"f">>, <<"10.0.0.2">>),
        Fact("link", <<"f", "2", "w", "1">>, <<"10000">>),
        Fact("link", <<"s", "1", "w", "2">>, <<"">>),
        Fact("user", <<"s", "bob">>, <<"pw", "true">>),
        Fact("folder", <<"s", "empty">>, <<>>),
        Fact("count", <<"nodes">>, <<"3">>) }

Decls == {D1, D2}

Init == /\ decl \in Decls
        /\ todo = decl
        /\ inv = {}

Fin(f) == todo' = todo \ {f} /\ UNCHANGED decl
MCAddNode    == \E f \in todo : AddNode(f) /\ Fin(f)
MCConfigure  == \E f \in todo : Configure(f) /\ Fin(f)
MCSetPorts   == \E f \in todo : SetPorts(f) /\ Fin(f)
MCAddNic     == \E f \in todo : AddNic(f) /\ Fin(f)
MCConnect    == \E f \in todo : Connect(f) /\ Fin(f)
MCAddRoute   == \E f \in todo : AddRoute(f) /\ Fin(f)
MCAddRule    == \E f \in todo : AddRule(f) /\ Fin(f)
MCInstall    == \E f \in todo : Install(f) /\ Fin(f)
MCSetOption  == \E f \in todo : SetOption(f) /\ Fin(f)
MCAddUser    == \E f \in todo : AddUser(f) /\ Fin(f)
MCCreateFile == \E f \in todo : CreateFile(f) /\ Fin(f)
MCAddAgent   == \E f \in todo : AddAgent(f) /\ Fin(f)

Next == \/ MCAddNode \/ MCConfigure \/ MCSetPorts \/ MCAddNic \/ MCConnect \/ MCAddRoute \/ MCAddRule
        \/ MCInstall \/ MCSetOption \/ MCAddUser \/ MCCreateFile \/ MCAddAgent

Spec == Init /\ [][Next]_mcvars

PrefixIsExpected == inv = Expected(decl \ todo)
BuiltIsExpected  == todo = {} => inv = Expected(decl)
Progress         == todo # {} => ENABLED Next
\* the comparison operators agree that a built inventory equal to Expected has no divergence
NoDiffWhenEqual  == todo = {} => \A c \in DOMAIN Diff(decl, inv) : Diff(decl, inv)[c] = {}
=============================================================================
