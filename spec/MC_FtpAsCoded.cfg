SPECIFICATION Spec
CONSTANTS
  ClientSets = {{"c1"}, {"c1", "c2"}}
  AllClients = {"c1", "c2"}
  Paths = {"d/a.txt", "e/b.pdf"}
  Verbs = {"stop", "start", "pause", "resume", "disable", "enable"}
  MaxEnv = 4
  AsCoded = TRUE
INVARIANT TypeOK
INVARIANT HandshakeFirst
INVARIANT SourceUntouched
INVARIANT ExactlyOneCreated
INVARIANT RetrOnlyIfOnServer
INVARIANT FailureChangesNothing
INVARIANT FailsWhenNotOperational
INVARIANT OkOnlyOnSuccess
INVARIANT ReportedActivity
INVARIANT OnlyFaultExcuses
PROPERTY ConnTableStep
CHECK_DEADLOCK FALSE
