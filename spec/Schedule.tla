------------------------------ MODULE Schedule ------------------------------
(***************************************************************************)
(* Episode scheduling (extension module, component B of NtpSchedule).      *)
(*                                                                         *)
(* Code: primaite/session/episode_schedule.py (ConstantEpisodeScheduler,   *)
(* EpisodeListScheduler, build_scheduler) and its use in                   *)
(* primaite/session/environment.py (PrimaiteGymEnv.__init__ / reset).      *)
(*                                                                         *)
(* Contract clauses and where they come from                               *)
(*  S1 EntryIsKModN        EpisodeListScheduler docstring "Cycle through a *)
(*     list of different game setups for each episode"; notebook           *)
(*     Using-Episode-Schedules "if we reset the environment again, we run  *)
(*     out of episodes. The environment will simply loop back to the       *)
(*     beginning": episode k gets schedule entry k mod n.                  *)
(*  S2 ExactlyListedVariations   docs/source/varying_config_files.rst      *)
(*     ("Users must define which combination of scenario variations should *)
(*     be loaded in each episode ... list of variations to load in at      *)
(*     episode 0"): the configuration of an entry is the base scenario     *)
(*     composed with exactly the files listed for it (ref[i] = digest of   *)
(*     that composition made independently by the harness).                *)
(*  S3 WarnsWhenWrapping   `_exceeded_episode_list' docstring ("we loop    *)
(*     back to the beginning, but a warning is raised") and the notebook   *)
(*     ("it produces a warning message to make users aware that the        *)
(*     episodes are being repeated"): the first request past the end warns,*)
(*     a request inside the schedule never does, a constant schedule never *)
(*     does.                                                               *)
(*  S4 HandOverFresh (deep-copy ownership)   ConstantEpisodeScheduler      *)
(*     "simply provides the same game setup every time" + its deepcopy;    *)
(*     PrimaiteGame.from_config consumes the dict it is given (Router      *)
(*     pops keys): whatever an episode does to the configuration it was    *)
(*     handed never shows in a configuration handed out later.             *)
(*  S5 ConstantIsConstant  same docstring: n = 1, every episode entry 1.   *)
(*  S6 EnvUsesEpisodeCounter   varying_config_files.rst "episode 0 (before *)
(*     the first call to env.reset() happens) ... episode 1 (after the     *)
(*     first env.reset() call)": the game after the i-th reset is built    *)
(*     from the configuration requested for episode i (gref[i] = signature *)
(*     of the game built from entry i, read from real game objects).       *)
(*  S7 SpacesAgree         gymnasium.Env contract relied on by every RL    *)
(*     library driving PrimaiteGymEnv (spaces are read once): the action   *)
(*     and observation space after every reset equal those of episode 0.   *)
(*     (No docstring of episode_schedule.py states this in the pinned      *)
(*     tree; it is checked for the schedules that are run.)                *)
(*                                                                         *)
(* Abstract state: configuration (never changes) kind, n, ref, gref; the   *)
(* scheduler's stored entries carry a version (0 = as loaded); every       *)
(* configuration handed out is remembered with the entry it came from, the *)
(* digest it had at hand-over and how often its owner changed it since.    *)
(***************************************************************************)
EXTENDS Naturals, Sequences, FiniteSets

VARIABLES
    kind,       \* "const" | "list"
    n,          \* number of schedule entries (1 for const)
    ref,        \* 1..n -> digest of base + listed variations of the entry
    gref,       \* 1..n -> signature of the game built from the entry
    store,      \* 1..n -> version of what the scheduler keeps (0 = pristine)
    out,        \* sequence of [idx, dig, ver]: configurations handed out
    warned,     \* the wrap-around warning has been given
    pend,       \* <<k>> = a configuration for episode k was requested and not yet built, else <<>>
    env,        \* "none" | "up"
    ep,         \* episode counter of the environment
    sp          \* <<action space, observation space>> of episode 0 (<<>> before)

svars == <<kind, n, ref, gref, store, out, warned, pend, env, ep, sp>>

Idx(k) == IF kind = "const" THEN 1 ELSE (k % n) + 1
Wraps(k) == kind = "list" /\ k >= n

SchedInit(kd, len, r, g) ==
    /\ kind = kd /\ n = len /\ ref = r /\ gref = g
    /\ store = [i \in 1..len |-> 0] /\ out = <<>> /\ warned = FALSE /\ pend = <<>>
    /\ env = "none" /\ ep = 0 /\ sp = <<>>

\* S1 S2 S4 S5: what must be handed out for episode k
Fresh(k, dig) == dig = ref[Idx(k)]
\* S3
WarnOK(k, w) ==
    /\ w \in 0..1
    /\ (Wraps(k) /\ ~warned) => w = 1
    /\ ~Wraps(k) => w = 0

\* scheduler(k) returned a configuration with digest dig having warned w times
Call(k, dig, w) ==
    /\ WarnOK(k, w)
    /\ out' = Append(out, [idx |-> Idx(k), dig |-> dig, ver |-> store[Idx(k)]])
    /\ warned' = (warned \/ Wraps(k))
    /\ pend' = <<k>>
    /\ UNCHANGED <<kind, n, ref, gref, store, env, ep, sp>>

\* the owner of the i-th configuration handed out changes it (PrimaiteGame.from_config consuming it, or anything else)
Mutate(i) ==
    /\ i \in 1..Len(out)
    /\ out' = [out EXCEPT ![i].ver = @ + 1]
    /\ UNCHANGED <<kind, n, ref, gref, store, warned, pend, env, ep, sp>>

\* NOT the contract: the configuration handed out shares structure with what the scheduler keeps
MutateShared(i) ==
    /\ i \in 1..Len(out)
    /\ out' = [out EXCEPT ![i].ver = @ + 1]
    /\ store' = [store EXCEPT ![out[i].idx] = @ + 1]
    /\ UNCHANGED <<kind, n, ref, gref, warned, pend, env, ep, sp>>

\* PrimaiteGymEnv(...) returned: game signature g, spaces a / o
EnvInit(g, a, o) ==
    /\ env = "none" /\ pend = <<0>>
    /\ g = gref[Idx(0)]
    /\ env' = "up" /\ ep' = 0 /\ sp' = <<a, o>> /\ pend' = <<>>
    /\ UNCHANGED <<kind, n, ref, gref, store, out, warned>>

\* env.reset() returned with episode counter k
Reset(k, g, a, o) ==
    /\ env = "up" /\ k = ep + 1 /\ pend = <<k>>
    /\ g = gref[Idx(k)]
    /\ <<a, o>> = sp
    /\ ep' = k /\ pend' = <<>>
    /\ UNCHANGED <<kind, n, ref, gref, store, out, warned, env, sp>>

\* env.step(...) returned
Step ==
    /\ env = "up"
    /\ UNCHANGED svars

\* ---- invariants -----------------------------------------------------------
SchedTypeOK ==
    /\ kind \in {"const", "list"} /\ n >= 1 /\ (kind = "const" => n = 1)
    /\ \A i \in 1..Len(out) : out[i].idx \in 1..n
    /\ env \in {"none", "up"} /\ Len(pend) <= 1
StoreNeverAffected == \A i \in 1..n : store[i] = 0
HandOverFresh == \A i \in 1..Len(out) : out[i].dig = ref[out[i].idx]
ConstantIsConstant == kind = "const" => \A i \in 1..Len(out) : out[i].idx = 1
WarnedOnlyAfterWrap == warned => kind = "list"
=============================================================================
