SPECIFICATION Spec
CONSTANTS
  Cl = {"c1", "c2"}
  Pws = {"none", "A"}
  Caps = {2}
  Pwds = {"none", "A", "B"}
  MQ = {"SELECT", "DELETE", "ENCRYPT"}
  MaxIds = 3
  WTick = 1
  WData = 1
  WConn = 1
  DisruptEvery = 1
  MaxDepth = 4
VIEW View
INVARIANT InvWithinCapacity
INVARIANT InvConnsIssued
INVARIANT Inv_OpenOnlyIfAllowed
INVARIANT Inv_HandleOnlyIfOpened
INVARIANT Inv_ConnectFrame
INVARIANT Inv_QueryOnlyOnOpenConn
INVARIANT Inv_QueryEffects
INVARIANT Inv_CompromisedReadFails
INVARIANT Inv_Restore
INVARIANT Inv_Backup
INVARIANT Inv_Others
PROPERTY P_OpenOnlyIfAllowed
PROPERTY P_QueryOnlyOnOpenConn
PROPERTY P_NothingWhileDown
PROPERTY P_RestoreGood
PROPERTY P_BackupIsSnapshot
CHECK_DEADLOCK FALSE
