--------------------------- MODULE BlockingProbe ---------------------------
(* Evaluates the structural predicate Blocked of Blocking.tla for a batch of *)
(* configurations (one single-event trace each).                            *)
(* cfg: [topo, zoneA, zoneB, up, lists (name -> [rules, implicit], rule     *)
(*       src/dst as sequences of symbols), pkt]                             *)
(* event: [ev |-> "Emit"|"MRecv"|"Check"|"Learn"|"Local"|"Forward"|"BRecv",*)
(*         acc, list, perm]                                                 *)
EXTENDS Blocking, TLC, TLCExt, Json, IOUtils

Traces == JsonDeserialize(IOEnv.TRACE_FILE)

VARIABLES tid, l
tvars == <<topo, zoneA, zoneB, up, lists, pkt, loc, seen, denied, did, tid, l>>

T == Traces[tid].ev
Cfg == Traces[tid].cfg
SetOf(s) == {s[i] : i \in 1..Len(s)}
ListNames == {"acl", "ext_in", "ext_out", "int_in", "int_out", "dmz_in", "dmz_out"}
RuleOf(r) == [act |-> r.act, src |-> SetOf(r.src), dst |-> SetOf(r.dst), proto |-> r.proto, dport |-> r.dport]
ListsOf(c) == [n \in ListNames |-> [rules |-> [i \in 1..Len(c[n].rules) |-> RuleOf(c[n].rules[i])],
                                     implicit |-> c[n].implicit]]

\* a probe event is accepted exactly when the configuration is structurally blocked
Clauses(e) == [IsBlocked |-> Blocked]
Failing(e) == LET cl == Clauses(e) IN {c \in DOMAIN cl : ~cl[c]}

Step(e) == UNCHANGED bvars

TraceInit ==
    /\ tid \in 1..Len(Traces)
    /\ l = 1
    /\ BlockInit(Cfg.topo, Cfg.zoneA, Cfg.zoneB, Cfg.up, ListsOf(Cfg.lists), Cfg.pkt)

TraceNext ==
    /\ l <= Len(T)
    /\ Failing(T[l]) = {}
    /\ Step(T[l])
    /\ l' = l + 1
    /\ UNCHANGED tid

TraceSpec == TraceInit /\ [][TraceNext]_tvars

Seen == TLCGet(tid)
Record ==
    IF l > Seen.pos
    THEN TLCSet(tid, [pos |-> l,
                      fail |-> IF l <= Len(T) THEN Failing(T[l]) ELSE {},
                      st |-> [loc |-> loc, seen |-> seen, denied |-> denied, did |-> did, blocked |-> Blocked,
                              want |-> ListsFor(pkt)]])
    ELSE TRUE
InitRegs == \A i \in 1..Len(Traces) : TLCSet(i, [pos |-> 0, fail |-> {}, st |-> <<>>])
ASSUME InitRegs

Report ==
    \A i \in 1..Len(Traces) :
        LET r == TLCGet(i) IN
        /\ PrintT(<<"TRACE", i, r.pos, Len(Traces[i].ev)>>)
        /\ (r.pos = Len(Traces[i].ev) + 1 \/ PrintT(<<"STUCK", i, r.pos, r.fail, r.st>>))
=============================================================================
