------------------------------- MODULE MC_C2 -------------------------------
(* Exhaustive model of the C2 suite: one beacon host, one server host, a     *)
(* router ACL that can block either direction; every interleaving of         *)
(* configure (all frequencies in Freqs x the first NMasq masquerades),       *)
(* execute, the four commands, whole game timesteps (both host orders),      *)
(* ACL changes, host power and application close.  The model takes the       *)
(* design's value for every logged parameter (a payload that can be sent is  *)
(* sent; it is delivered iff the path is open) and both statuses of a        *)
(* command output.                                                           *)
(* MC_C2.cfg       : the contract (Variant = "contract"), quick constants     *)
(*                    (frequencies {1,3}, 2 masquerades, 2 of the 4 commands). *)
(* MC_C2Deep.cfg   : the same with frequencies 1..3, 3 masquerades, all four  *)
(*                    commands (thorough tier).                                *)
(* MC_C2Sim.cfg    : constants of the behaviours handed to the driver         *)
(*                    (tlc.simulate): as Deep, with the rare stimuli repeated  *)
(*                    (EstWeight, TickWeight) because the simulator picks      *)
(*                    uniformly among the successors.                          *)
(* MC_C2ExactDue.cfg: NEGATIVE - a beacon whose timestep sends the keep alive *)
(*   only when inactivity == frequency (the coding before fix 4a410e5): TLC    *)
(*   must refute InvBounded (re-configured to a lower frequency while its keep *)
(*   alive is not answered, it stays "active" and silent for ever).            *)
EXTENDS C2, TLC

CONSTANTS Freqs, NMasq, Variant, MaxInact, MCmds,
          EstWeight, TickWeight   \* the simulator picks uniformly among successors: repeat the rare stimuli

VARIABLES beaconFirst,  \* configuration: the beacon's host is stepped before the server's host
          tq            \* the applications still to be stepped in the running game timestep
mvars == <<svars, beaconFirst, tq>>

Masq == << [port |-> 80, proto |-> "tcp"], [port |-> 53, proto |-> "udp"], [port |-> 21, proto |-> "tcp"] >>
Cfgs == {[freq |-> f, port |-> Masq[i].port, proto |-> Masq[i].proto] : f \in Freqs, i \in 1..NMasq}

Init == /\ beaconFirst \in BOOLEAN /\ tq = <<>>
        /\ C2Init(TRUE, Env0, Bcn0(FALSE), Srv0)

Top == Idle /\ tq = <<>>
Keep == UNCHANGED <<beaconFirst, tq>>

MConfigure(c) == Top /\ Configure(c, env.bOn /\ bcn.act /\ CanSendB) /\ Keep
MEstablish    == Top /\ Establish(MayEstablish, IF MayEstablish THEN TRUE ELSE env.bRun) /\ Keep
MCommand(c)   == Top /\ Command(c, MayCommand) /\ Keep
MAcl(d, b)    == Top /\ (IF d = "BS" THEN env.blkBS ELSE env.blkSB) # b /\ Acl(d, b) /\ Keep
MPower(n, on) == Top /\ (IF n = "B" THEN env.bOn ELSE env.sOn) # on /\ Power(n, on) /\ Keep
MClose(a)     == Top /\ (IF a = "B" THEN env.bRun ELSE env.sRun) /\ Close(a) /\ Keep

TickOrder == LET b == IF env.bOn THEN <<"B">> ELSE <<>>
                 s == IF env.sOn THEN <<"S">> ELSE <<>>
             IN  IF beaconFirst THEN b \o s ELSE s \o b
MTickBegin == /\ Top /\ tq' = TickOrder /\ last' = <<"Tick">>
              /\ UNCHANGED <<pathKnown, env, bcn, srv, net, todo, retOk, beaconFirst>>

\* a beacon that sends its keep alive only when inactivity EQUALS the frequency (`==' instead of "eclipses")
ExactDueBcnTick ==
    /\ Idle /\ env.bOn
    /\ IF ~BcnCounts THEN Apply(State, <<"BcnTick">>)
       ELSE LET b2 == [bcn EXCEPT !.inact = bcn.inact + 1, !.att = FALSE] IN
            IF b2.inact = b2.freq
            THEN Apply([State EXCEPT !.bcn = b2, !.net = Msg("ka", "S", b2, "", "", b2.sport, b2.sproto), !.todo = <<"confirm">>],
                       <<"BcnTick">>)
            ELSE Apply([State EXCEPT !.bcn = b2], <<"BcnTick">>)
MBcnTick == /\ tq # <<>> /\ Head(tq) = "B"
            /\ IF Variant = "exactdue" THEN ExactDueBcnTick
               ELSE BcnTick(BcnCounts /\ Due(bcn.inact + 1, bcn.freq))
            /\ tq' = Tail(tq) /\ UNCHANGED beaconFirst
MSrvTick == tq # <<>> /\ Head(tq) = "S" /\ SrvTick /\ tq' = Tail(tq) /\ UNCHANGED beaconFirst

MSrvKA      == SrvKA(TRUE) /\ Keep
MBcnKA      == BcnKA(~bcn.att) /\ Keep
MBcnInput   == (\E st \in Statuses : BcnInput(net.cmd, st, TRUE)) /\ Keep
MSrvOutput  == SrvOutput /\ Keep
MDrop       == Drop /\ Keep
MBcnConfirm == BcnConfirm /\ Keep
MReturn     == Return(retOk) /\ Keep

Next ==
    \/ \E c \in Cfgs : MConfigure(c)
    \/ \E k \in 1..EstWeight : MEstablish
    \/ \E c \in MCmds : MCommand(c)
    \/ \E d \in {"BS", "SB"}, b \in BOOLEAN : MAcl(d, b)
    \/ \E n \in {"B", "S"}, on \in BOOLEAN : MPower(n, on)
    \/ \E a \in {"B", "S"} : MClose(a)
    \/ (\E k \in 1..TickWeight : MTickBegin) \/ MBcnTick \/ MSrvTick
    \/ MSrvKA \/ MBcnKA \/ MBcnInput \/ MSrvOutput \/ MDrop \/ MBcnConfirm \/ MReturn

Spec == Init /\ [][Next]_mvars
View == <<pathKnown, env, bcn, srv, net, todo, retOk, beaconFirst, tq>>

InvBounded == InvInactivityBounded(MaxInact)
\* state constraint of the exact-due variant (its inactivity counter is unbounded)
Bound == bcn.inact <= MaxInact + 1
=============================================================================
