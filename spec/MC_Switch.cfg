SPECIFICATION Spec
CONSTANTS
  Macs = {"a", "b", "c"}
  MaxSteps = 6
INVARIANT TableWellFormed
PROPERTY NeverOutDisabled
VIEW View
CHECK_DEADLOCK FALSE
