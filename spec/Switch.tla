------------------------------- MODULE Switch -------------------------------
(***************************************************************************)
(* A layer-2 learning switch (extension module, beyond the listed          *)
(* properties): the MAC table maps a source address to the port it was     *)
(* last seen on; a frame to a learnt unicast address leaves through that   *)
(* port only; broadcasts and unknown addresses are flooded to every other  *)
(* enabled port; nothing is ever sent back out of a flooding ingress port. *)
(* nPorts is a configuration variable.                                     *)
(***************************************************************************)
EXTENDS Naturals, FiniteSets

VARIABLES nPorts, enabled, table
svars == <<nPorts, enabled, table>>
Ports == 1..nPorts
Bcast == "ff"

SwitchInit(n, en) == nPorts = n /\ enabled = en /\ table = [m \in {} |-> 0]
\* a switch observed from the middle of its life: the table it has learnt so far is part of the configuration
SwitchInitT(n, en, t) == nPorts = n /\ enabled = en /\ table = t

\* where a frame from `src' to `dst' arriving on port `inp' must go, given the table AFTER learning
Learnt(src, inp) == [m \in DOMAIN table \cup {src} |-> IF m = src THEN inp ELSE table[m]]
OutPorts(src, dst, inp) ==
    LET t == Learnt(src, inp) IN
    IF dst # Bcast /\ dst \in DOMAIN t
    THEN (IF enabled[t[dst]] THEN {t[dst]} ELSE {})
    ELSE {p \in Ports : enabled[p] /\ p # inp}

\* a frame arrives on an (enabled) port: learn, then forward / flood; `outs' = ports it was sent through
Receive(src, dst, inp, outs) ==
    /\ inp \in Ports /\ enabled[inp]
    /\ table' = Learnt(src, inp)
    /\ outs = OutPorts(src, dst, inp)
    /\ UNCHANGED <<nPorts, enabled>>

SetPort(p, en) ==
    /\ p \in Ports
    /\ enabled' = [enabled EXCEPT ![p] = en]
    /\ UNCHANGED <<nPorts, table>>

\* the table never maps an address to a port that does not exist
TableWellFormed == \A m \in DOMAIN table : table[m] \in Ports
=============================================================================
