--------------------------- MODULE ArpIcmpTrace ---------------------------
(* Trace validation of recorded executions of ARP / ICMP on real hosts and *)
(* routers against ArpIcmp.tla (batch idiom of LinkTrace.tla).             *)
(*                                                                         *)
(* cfg: [ifs (sequence of [node, ip, mac, seg]), kind, gw, sub (per         *)
(*       interface: the addresses in its subnet),                          *)
(*       power, up, cache (per node: sequence of [ip, mac, ifc]),          *)
(*       skip (clause names not judged: empty in the verdict pass; the     *)
(*       harness re-examines a REJECTED trace with the clauses it failed   *)
(*       skipped, only to look for further divergences behind the first)]  *)
(* event (every event has every field; unused ones carry 0 / FALSE / ""): *)
(*  ev   "PingStart" | "PingEnd" | "ArpAsk" | "Tx" | "Rx" | "RxDeny" |     *)
(*       "Count" | "Quiet" | "SetIf" | "SetPower" | "Clear"                *)
(*  n    node, i interface, ip address argument, cnt pings, res result,    *)
(*  en   enable / power-on flag, ok frame taken by the link, why reason    *)
(*       a frame was refused ("ifdown" | "link")                           *)
(*  fid k out esrc edst isrc idst id seq sip smac tip tmac: the frame as   *)
(*       read from the Frame object at the hook                            *)
(*  pw ifup: node ON / interface enabled as read from the objects          *)
(*  cache: ARP cache of node n read after the call ([ip, mac, ifc]);       *)
(*  tl: ICMP.request_replies of node n ([id, c]); ups: enabled flags of    *)
(*       the interfaces of node n                                          *)
EXTENDS ArpIcmp, TLC, TLCExt, Json, IOUtils

Traces == JsonDeserialize(IOEnv.TRACE_FILE)

VARIABLES tid, l
tvars == <<avars, tid, l>>

T == Traces[tid].ev
Cfg == Traces[tid].cfg

CacheOf(s) == [ip \in {s[j].ip : j \in 1..Len(s)} |->
                  LET j == CHOOSE j \in 1..Len(s) : s[j].ip = ip IN [mac |-> s[j].mac, ifc |-> s[j].ifc]]
TallyOf(s) == [id \in {s[j].id : j \in 1..Len(s)} |-> LET j == CHOOSE j \in 1..Len(s) : s[j].id = id IN s[j].c]
FrameIn(e) == [fid |-> e.fid, k |-> e.k, out |-> e.out, edst |-> e.edst, isrc |-> e.isrc, idst |-> e.idst,
               id |-> e.id, seq |-> e.seq, sip |-> e.sip, smac |-> e.smac, tip |-> e.tip, tmac |-> e.tmac]
IsRx(e) == e.ev \in {"Rx", "RxDeny"}
IsTx(e, k) == e.ev = "Tx" /\ e.k = k
Known(e) == e.out \in Ifs /\ (IsRx(e) => e.i \in Ifs)
Sent(e) == FrameIn(e) \in wire

\* named clauses, all predicates of (current state, event)
Clauses(e) ==
    LET f == FrameIn(e) IN
    [ \* --- ARP cache
      LearnOnlyFromReceivedFrame |->
          (e.ev = "Rx" /\ Known(e) /\ Sent(e)) =>
              CacheOf(e.cache) = Learnt(cache[e.n], e.i, f),
      CacheOnlyByRx |->
          (e.ev \notin {"Rx", "Clear", "Quiet"} /\ e.n # 0) => CacheOf(e.cache) = cache[e.n],
      ClearEmptiesCache |-> e.ev = "Clear" => e.cache = <<>>,
      \* --- who receives
      RxFrameWasSent |-> IsRx(e) => (Known(e) /\ Sent(e) /\ Seg(f) = ifs[e.i].seg /\ ifs[e.i].node = e.n
                                      /\ e.i # f.out /\ e.esrc = Esrc(f)),
      RxNotTwice |-> IsRx(e) => <<e.fid, e.i>> \notin got,
      OnlyLiveNodesReceive |-> (IsRx(e) /\ Known(e)) => (power[e.n] /\ up[e.i] /\ e.pw /\ e.ifup),
      RxAddressedHere |-> (IsRx(e) /\ Known(e)) => Accepts(e.i, f),
      RxDenyOnlyRouterAcl |-> e.ev = "RxDeny" => (kind[e.n] = "router" /\ e.k \in {"ereq", "erep", "data"}),
      \* --- who sends what
      TxFromLiveInterface |-> e.ev = "Tx" =>
          (Known(e) /\ ifs[e.out].node = e.n /\ (e.ok => (power[e.n] /\ up[e.out])) /\ (e.why = "ifdown" => ~up[e.out])),
      TxFrameWellFormed |-> (e.ev = "Tx" /\ Known(e)) =>
          (e.fid = nfid /\ e.esrc = ifs[e.out].mac
           /\ (e.k \in {"areq", "arep"} => e.tip = e.idst)
           /\ (e.k = "arep" => TxArpReplyShape(FrameIn(e)))),
      ArpRequestOncePerMiss |-> (IsTx(e, "areq") /\ Known(e)) => TxArpRequestOk(f),
      LookupMissSendsRequest |-> (e.ev = "ArpAsk" => AskSent(e.n)) /\ (e.ev = "Quiet" => \A n \in Nodes : AskSent(n)),
      ArpRequestBroadcastInTargetSubnet |-> (IsTx(e, "areq") /\ Known(e)) => TxArpRequestShape(f),
      ArpReplyOnlyByOwner |-> (IsTx(e, "arep") /\ Known(e)) => TxArpReplyOk(f),
      EchoRequestOnlyFromPing |-> (IsTx(e, "ereq") /\ Known(e)) => TxEchoRequestOk(f),
      EchoReplyOnlyByAddressee |-> (IsTx(e, "erep") /\ Known(e)) => TxEchoReplyOk(f),
      EchoReplySameIdentifier |-> (IsTx(e, "erep") /\ Known(e)) => TxEchoReplyIdOk(f),
      UnicastToResolvedMac |-> (e.ev = "Tx" /\ Known(e)) => TxUnicastOk(f),
      \* --- counting and the verdict of ping()
      ReplyCountedOnce |-> e.ev = "Count" =>
          (/\ \E t \in tok : t.n = e.n /\ t.id = e.id
           /\ TallyOf(e.tl) = [x \in DOMAIN tally[e.n] \cup {e.id} |-> IF x = e.id THEN Count(e.n, e.id) + 1 ELSE tally[e.n][x]]),
      OnePingAtATime |-> e.ev = "PingStart" => ping.n = 0,
      AtMostNReplies |-> e.ev = "PingEnd" => (ping.n = e.n /\ Count(e.n, ping.id) <= ping.sent /\ ping.sent <= ping.cnt),
      PingTrueIffAllAnswered |-> e.ev = "PingEnd" => (e.res <=> PingResult),
      PingForgetsIdentifier |-> (e.ev = "PingEnd" /\ ping.n = e.n) =>
          TallyOf(e.tl) = (IF ping.id \in DOMAIN tally[e.n] THEN Without(tally[e.n], ping.id) ELSE tally[e.n]),
      \* --- when the call has returned
      OwnerAnswers |-> e.ev = "Quiet" => OwnersAnswered,
      RepliesAreCounted |-> e.ev = "Quiet" => RepliesCounted,
      NoPingLeftOpen |-> e.ev = "Quiet" => ping.n = 0,
      \* --- interfaces and power
      EnableOnlyWhenOn |-> (e.ev = "SetIf" /\ e.en) => (e.i \in Ifs /\ power[ifs[e.i].node] /\ e.pw),
      PowerOffDisablesNics |-> (e.ev = "SetPower" /\ ~e.en) => \A j \in 1..Len(e.ups) : ~e.ups[j]
    ]
Skip == {Cfg.skip[j] : j \in 1..Len(Cfg.skip)}
Failing(e) == LET cl == Clauses(e) IN {c \in DOMAIN cl : ~cl[c]} \ Skip

Step(e) ==
    CASE e.ev = "PingStart" -> PingStart(e.n, e.ip, e.cnt)
      [] e.ev = "PingEnd"   -> PingEnd(e.n, e.res)
      [] e.ev = "ArpAsk"    -> ArpAsk(e.n, e.ip)
      [] e.ev = "Tx"        -> Tx(FrameIn(e), e.ok)
      [] e.ev = "Rx"        -> Rx(e.i, e.fid)
      [] e.ev = "RxDeny"    -> RxDeny(e.i, e.fid)
      [] e.ev = "Count"     -> CountReply(e.n, e.id)
      [] e.ev = "Quiet"     -> Quiet
      [] e.ev = "SetIf"     -> SetIf(e.i, e.en)
      [] e.ev = "SetPower"  -> SetPower(e.n, e.en)
      [] e.ev = "Clear"     -> ClearCache(e.n)
      [] OTHER -> FALSE

TraceInit ==
    /\ tid \in 1..Len(Traces)
    /\ l = 1
    /\ ArpInit(Cfg.ifs, Cfg.kind, Cfg.gw, [i \in 1..Len(Cfg.sub) |-> {Cfg.sub[i][j] : j \in 1..Len(Cfg.sub[i])}], Cfg.power, Cfg.up,
               [n \in 1..Len(Cfg.kind) |-> CacheOf(Cfg.cache[n])])

TraceNext ==
    /\ l <= Len(T)
    /\ Failing(T[l]) = {}
    /\ Step(T[l])
    /\ l' = l + 1
    /\ UNCHANGED tid

TraceSpec == TraceInit /\ [][TraceNext]_tvars

Seen == TLCGet(tid)
Record ==
    IF l > Seen.pos
    THEN TLCSet(tid, [pos |-> l,
                      fail |-> IF l <= Len(T) THEN Failing(T[l]) ELSE {},
                      st |-> [power |-> power, up |-> up, ping |-> ping, ask |-> ask, nfid |-> nfid,
                              owed |-> owed, fwd |-> fwd, tok |-> tok, wire |-> wire,
                              cache |-> IF l <= Len(T) /\ T[l].n \in Nodes THEN cache[T[l].n] ELSE <<>>,
                              tally |-> IF l <= Len(T) /\ T[l].n \in Nodes THEN tally[T[l].n] ELSE <<>>]])
    ELSE TRUE
InitRegs == \A i \in 1..Len(Traces) : TLCSet(i, [pos |-> 0, fail |-> {}, st |-> <<>>])
ASSUME InitRegs

Report ==
    \A i \in 1..Len(Traces) :
        LET r == TLCGet(i) IN
        /\ PrintT(<<"TRACE", i, r.pos, Len(Traces[i].ev)>>)
        /\ (r.pos = Len(Traces[i].ev) + 1 \/ PrintT(<<"STUCK", i, r.pos, r.fail, r.st>>))
=============================================================================
