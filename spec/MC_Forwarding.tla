--------------------------- MODULE MC_Forwarding ---------------------------
(* Exhaustive model of Forwarding: one frame of every (emitter, dst, ttl)  *)
(* on ten small internetworks (8-bit addresses; LANs are /4, the          *)
(* router-router link a /6 with two usable addresses):                     *)
(*   T1  a - r - [sw] - b                                                  *)
(*   T2  a - r1 = r2 - b   static routes both ways, a longer-prefix route   *)
(*       competing with a shorter one and with a higher-metric twin that   *)
(*       both point at a black hole                                        *)
(*   T3  a - r1 = r2 - b   r1 and r2 point at each other (static route for *)
(*       128/2 and default routes): a routing LOOP for addresses that      *)
(*       exist nowhere - the ttl exercise                                  *)
(*   T4  a, c - [sw] - r - b   host a uses host c as its default gateway   *)
(*   T5  a - r1, r2 - b, r3: a TRIANGLE of routers; r1 has two routes to   *)
(*       b's LAN (direct, metric 0; via r3, metric 1); 128/2 is routed     *)
(*       round the triangle r1 -> r2 -> r3 -> r1 for ever                  *)
(*   T6  a - r1 = r2 - b   like T2, but the subnet the two routers share   *)
(*       is a /4 with free addresses (78 is on it and owned by nobody)     *)
(*   T7  the triangle of T5 with asymmetric paths (a->b round via r3,      *)
(*       b->a over the direct link)                                        *)
(*   T8  a, b and both router interfaces on ONE switch (two subnets)       *)
(*   T9  a, r1, r2 - [sw]; r1 - d; r2 - b: a's gateway r1 routes to b's    *)
(*       LAN via r2 on the LAN the packet came from (hairpin)              *)
(*   T10 h - r1, t + r1 + r2 - [sw], r2 - c, r1 = r2: t's gateway is r2,   *)
(*       which reaches h over the dedicated link (r1 sees t "behind" r2)   *)
(* The design lowers the ttl by one at every receiving interface / switch  *)
(* port and at every routing decision.  harness/c08.py reads the           *)
(* topologies and the frames from this model's behaviours, builds the real *)
(* networks and emits the same frames.                                     *)
EXTENDS Forwarding, TLC

CONSTANTS TTLs, DefaultTtl

If(a, p) == [addr |-> a, plen |-> p]
Rt(n, p, h, m) == [net |-> n, plen |-> p, hop |-> h, metric |-> m]
H(nm, a, p, g) == [name |-> nm, kind |-> "host", ifs |-> <<If(a, p)>>, gw |-> g, routes |-> <<>>, dflt |-> NoHop]
R(nm, is, rs, d) == [name |-> nm, kind |-> "router", ifs |-> is, gw |-> NoHop, routes |-> rs, dflt |-> d]
S(nm, n, p) == [name |-> nm, kind |-> "switch", ifs |-> <<If(n, p)>>, gw |-> NoHop, routes |-> <<>>, dflt |-> NoHop]

T1 == << H("a", 18, 4, 17), H("b", 34, 4, 33),
         R("r", <<If(17, 4), If(33, 4)>>, <<>>, NoHop),
         S("sw", 32, 4) >>
T2 == << H("a", 18, 4, 17), H("b", 34, 4, 33),
         R("r1", <<If(17, 4), If(65, 6)>>, <<Rt(0, 2, 30, 0), Rt(32, 4, 30, 1), Rt(32, 4, 66, 0)>>, NoHop),
         R("r2", <<If(33, 4), If(66, 6)>>, <<Rt(16, 4, 65, 0)>>, 65) >>
T3 == << H("a", 18, 4, 17), H("b", 34, 4, 33),
         R("r1", <<If(17, 4), If(65, 6)>>, <<Rt(128, 2, 66, 0)>>, 66),
         R("r2", <<If(33, 4), If(66, 6)>>, <<Rt(128, 2, 65, 0), Rt(16, 4, 65, 0)>>, 65) >>
T4 == << H("a", 18, 4, 19), H("c", 19, 4, 17), H("b", 34, 4, 33),
         R("r", <<If(17, 4), If(33, 4)>>, <<>>, NoHop),
         S("sw", 16, 4) >>
T5 == << H("a", 18, 4, 17), H("b", 34, 4, 33),
         R("r1", <<If(17, 4), If(65, 6), If(73, 6)>>, <<Rt(32, 4, 74, 1), Rt(32, 4, 66, 0), Rt(128, 2, 66, 0)>>, NoHop),
         R("r2", <<If(33, 4), If(66, 6), If(69, 6)>>, <<Rt(16, 4, 65, 0), Rt(128, 2, 70, 0)>>, NoHop),
         R("r3", <<If(70, 6), If(74, 6)>>, <<Rt(128, 2, 73, 0), Rt(16, 4, 73, 0), Rt(32, 4, 69, 0)>>, NoHop) >>
T6 == << H("a", 18, 4, 17), H("b", 34, 4, 33),
         R("r1", <<If(17, 4), If(65, 4)>>, <<Rt(32, 4, 66, 0)>>, NoHop),
         R("r2", <<If(33, 4), If(66, 4)>>, <<Rt(16, 4, 65, 0)>>, NoHop) >>
\* T7: the triangle with ASYMMETRIC paths: r1's best route to b's LAN goes round via r3 (metric 0; the direct link
\* to r2 has metric 1) while r2 answers over the direct link - so r1 hears b's address from r2 and must still
\* forward to r3 (what a router has heard from a neighbour must not replace its route table)
T7 == << H("a", 18, 4, 17), H("b", 34, 4, 33),
         R("r1", <<If(17, 4), If(65, 6), If(73, 6)>>, <<Rt(32, 4, 74, 0), Rt(32, 4, 66, 1), Rt(128, 2, 66, 0)>>, NoHop),
         R("r2", <<If(33, 4), If(66, 6), If(69, 6)>>, <<Rt(16, 4, 65, 0), Rt(128, 2, 70, 0)>>, NoHop),
         R("r3", <<If(70, 6), If(74, 6)>>, <<Rt(128, 2, 73, 0), Rt(16, 4, 73, 0), Rt(32, 4, 69, 0)>>, NoHop) >>
\* T8: ONE switch carries two subnets and both interfaces of the router are plugged into it: a routed frame crosses the
\* same switch twice (and the router rewrites the addresses of the frame in between)
S2(nm, n1, p1, n2, p2) == [name |-> nm, kind |-> "switch", ifs |-> <<If(n1, p1), If(n2, p2)>>, gw |-> NoHop, routes |-> <<>>, dflt |-> NoHop]
T8 == << H("a", 18, 4, 17), H("b", 34, 4, 33),
         R("r", <<If(17, 4), If(33, 4)>>, <<>>, NoHop),
         S2("sw", 16, 4, 32, 4) >>
\* T9: HAIRPIN - the hosts' gateway r1 reaches b's LAN through r2, which sits on the SAME LAN as the hosts: r1 must send
\* the packet back out of the interface it arrived on (d, behind r1, makes r1 a router with a second interface in use)
T9 == << H("a", 18, 4, 17), H("b", 34, 4, 33), H("d", 50, 4, 49),
         R("r1", <<If(17, 4), If(49, 4)>>, <<Rt(32, 4, 20, 0)>>, NoHop),
         R("r2", <<If(20, 4), If(33, 4)>>, <<Rt(48, 4, 17, 0)>>, NoHop),
         S("sw", 16, 4) >>
\* T10: t shares a LAN with BOTH routers and uses r2 as its gateway; r2 reaches h's LAN over a dedicated r1 = r2 link, so r1
\* sees t's packets arrive from r2 although t is its direct neighbour on the LAN (what a router learns from a frame that merely
\* passes through it must not replace what the topology says)
T10 == << H("h", 18, 4, 17), H("t", 34, 4, 36), H("c", 50, 4, 49),
          R("r1", <<If(17, 4), If(33, 4), If(65, 6)>>, <<Rt(48, 4, 66, 0)>>, NoHop),
          R("r2", <<If(66, 6), If(36, 4), If(49, 4)>>, <<Rt(16, 4, 65, 0)>>, NoHop),
          S("sw", 32, 4) >>
Topos == {T1, T2, T3, T4, T5, T6, T7, T8, T9, T10}

\* every owned address, an unowned address on each LAN and on the router-router subnet of T6 (78),
\* two addresses that exist nowhere (133: inside the static 128/2 routes of T3/T5; 200: only default
\* routes apply)
Owned(t) == UNION {{t[n].ifs[i].addr : i \in 1..Len(t[n].ifs)} : n \in {m \in 1..Len(t) : t[m].kind # "switch"}}
Dsts == Owned(topo) \cup {30, 45, 78, 133, 200}

Init == \E t \in Topos : FwdInit(t)

MEmit ==
    \E n \in Nodes, d \in Dsts, t \in TTLs :
        /\ ~IsSwitch(n) /\ ~Owns(n, d)
        /\ \E nh \in NextHops(n, d) : Emit(n, d, t, nh)

NeedsSwitch == SwitchesOf(to) # {} /\ ~swdone

MSwitch ==
    /\ phase = "wire" /\ ttl >= 1 /\ NeedsSwitch
    /\ \E s \in SwitchesOf(to) : SwitchHop(s, ttl - 1, ttl - 1 >= 1)

MRecv ==
    /\ phase = "wire" /\ ttl >= 1 /\ ~NeedsSwitch
    /\ \E n \in Owners(to) : RecvAtInterface(n, ttl - 1, ttl - 1 >= 1)

MLost ==
    /\ phase = "wire"
    /\ ttl < 1 \/ (~NeedsSwitch /\ Owners(to) = {})
    /\ Lost

MLocal   == phase = "node" /\ Owns(at, dst) /\ Local(at)
MDeliver == phase = "local" /\ Deliver(at)

MForward ==
    /\ phase = "node" /\ ~Owns(at, dst) /\ IsRouter(at)
    /\ \E nh \in NextHops(at, dst) : RouterForward(at, nh, ttl - 1, ttl - 1 >= 1)

\* a host never forwards; a router without a route discards
MDrop ==
    /\ phase = "node" /\ ~Owns(at, dst)
    /\ IsHost(at) \/ NextHops(at, dst) = {}
    /\ Drop(at, ttl)

Walk == MSwitch \/ MRecv \/ MLost \/ MLocal \/ MDeliver \/ MForward \/ MDrop
Next == MEmit \/ Walk

Spec == Init /\ [][Next]_fvars /\ WF_fvars(Walk)

-----------------------------------------------------------------------------
\* handling a frame always ends
Termination == InFlight ~> Done

\* with the default ttl a frame is discarded only if the topology does not route it
Reachability == (phase = "dropped" /\ ttl0 = DefaultTtl) => ~Reaches(origin, dst, Len(topo))
\* ... and is delivered if it does
ReachLive == (phase = "wire" /\ ttl0 = DefaultTtl /\ Reaches(origin, dst, Len(topo))) ~> (phase = "delivered")

=============================================================================
