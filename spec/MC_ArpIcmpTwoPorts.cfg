SPECIFICATION Spec
CONSTANTS
  MaxStim = 2
  MaxPings = 2
  AsCoded = FALSE
  BadId = FALSE
  AnyPort = FALSE
  Layout = 3
  Pingers = {1, 2}
  Toggle = {2, 3}
INVARIANT CacheEntriesTruthful
INVARIANT UpImpliesPower
INVARIANT OwedOnlyByOwner
INVARIANT AtMostNReplies
INVARIANT WireFromLive
INVARIANT PingTrueIffAllAnswered
INVARIANT UnreachableGivesFalse
INVARIANT EchoReplySameIdentifier
INVARIANT UnicastToResolvedMac
INVARIANT ArpReplyOnlyByOwner
PROPERTY CacheOnlyByRx
VIEW View
CHECK_DEADLOCK FALSE
