SPECIFICATION Spec
CONSTANTS
  AddrBits = 8
  TTLs = {1, 2, 3, 4, 64}
  DefaultTtl = 64
INVARIANT DeliverOnlyAtOwner
INVARIANT ForwardUsesBestRoute
INVARIANT HeldFramesAlive
INVARIANT BoundedHops
INVARIANT Reachability
PROPERTY TtlStrictlyDecreases
PROPERTY ExhaustedIsDropped
PROPERTY Termination
PROPERTY ReachLive
CHECK_DEADLOCK FALSE
