SPECIFICATION Spec
CONSTANTS
  NPos = 2
  MaxRules = 2
  Modes = {"fill"}
  Domain = "wide"
VIEW View
INVARIANT TypeOK
INVARIANT NoCounterWithoutRule
INVARIANT ScanIsLowestMatch
INVARIANT DeciderIsLowestMatch
PROPERTY AddProp
CHECK_DEADLOCK FALSE
