--------------------------------- MODULE C2 ---------------------------------
(***************************************************************************)
(* The command-and-control suite (extension module, beyond the listed      *)
(* properties): ONE C2 beacon and ONE C2 server on two hosts, the network  *)
(* between them (synchronous: a payload that is sent is handled - or       *)
(* dropped - before the sender's call returns) and the timestep.           *)
(* Code: simulator/system/applications/red_applications/c2/abstract_c2.py, *)
(* c2_beacon.py, c2_server.py; packet: network/protocols/masquerade.py.    *)
(*                                                                         *)
(* CONTRACT CLAUSES and where they come from                               *)
(*  (rst = docs/source/simulation_components/system/applications/          *)
(*         c2_suite.rst, nb = notebooks/Command-and-Control-E2E-           *)
(*         Demonstration.ipynb)                                            *)
(*  K1 EstablishOnlyWhenConfigured / EstablishesWhenConfigured             *)
(*     rst "A C2 Beacon will need to be first configured with the C2       *)
(*     Server IP Address ... Once installed and configured; the c2 beacon  *)
(*     can establish connection with the C2 Server via executing the       *)
(*     application"; C2Beacon.establish docstring "The C2 Beacon must      *)
(*     already be configured"; rst "Via Configuration" (the address may be *)
(*     given as the option c2_server_ip_address of the scenario file; "A   *)
(*     C2 Beacon will not automatically connection ... Either an agent     *)
(*     must use application_execute. Or ... .establish()").                *)
(*  K2 ConnectionNeedsBothRunning   C2Server docstring "must be installed   *)
(*     and be in a running state before it's able to receive red agent     *)
(*     actions and send commands"; rst table "(The C2 Server must be       *)
(*     running)"; C2Beacon._handle_keep_alive docstring "we need a         *)
(*     response back from the listener (C2 Server) before the C2 beacon is *)
(*     able to confirm it's connection".                                   *)
(*  K3 ServerLearnsFromKeepAlive    C2Server.show docstring "The IP of the *)
(*     C2 Beacon. (Configured by upon receiving a keep alive.)";           *)
(*     _resolve_keep_alive; rst "will configure itself to match the C2     *)
(*     beacon's network behaviour".                                        *)
(*  K4 AnswersEachKeepAliveOnce     rst "Which is then resolved and        *)
(*     responded by another Keep Alive by the C2 server back to the C2     *)
(*     beacon"; C2Server._handle_keep_alive docstring step 3.              *)
(*  K5 KeepAliveEveryFrequency      rst "Keep Alive Frequency: How often   *)
(*     should the C2 Beacon confirm it's connection in timesteps. For      *)
(*     example, if ... set to one then every single timestep the C2        *)
(*     connection will be confirmed"; AbstractC2.apply_timestep docstring  *)
(*     "If the keep alive inactivity eclipses that of the keep alive       *)
(*     frequency then another keep alive is sent".                         *)
(*  K6 LostAfterMissedKeepAlive     AbstractC2.apply_timestep docstring    *)
(*     "if keep_alive_inactivity attribute is not 0 after a keep alive is  *)
(*     sent then the connection is considered severed and c2 beacon will   *)
(*     shut down" (ONE missed keep alive); _reset_c2_connection docstring  *)
(*     "Resets all currently established C2 communications to their        *)
(*     default setting ... will revert any non-default configuration"      *)
(*     (ResetRestoresDefaults).  ServerDropsAfterInactivity:               *)
(*     C2Server._confirm_remote_connection docstring "If a C2 Server has   *)
(*     not received a keep alive within the current set keep alive         *)
(*     frequency ... the C2 beacons connection is considered dead and any  *)
(*     commands will be rejected"; nb "After six timesteps the ... server  *)
(*     will recognise the C2 beacon's previous connection as dead" (f=5).  *)
(*  K7 CommandOnlyWhileActive       rst "Once received [the keep alive]    *)
(*     the C2 Server is able to send and receive C2 commands";             *)
(*     _check_connection docstring.                                        *)
(*  K8 ExecutesExactlyTheCommandSent  C2Beacon._handle_command_input table *)
(*     (command -> method); rst "Receives and executes C2 Commands given   *)
(*     by the C2 Server via C2Payload.INPUT".                              *)
(*  K9 ExactlyOneOutput / ResponseIsThisCommandsOutput   rst "Returns the  *)
(*     RequestResponse of the C2 Commands executed back the C2 Server via  *)
(*     C2Payload.OUTPUT"; C2Server.send_command ":return: Returns the      *)
(*     Request Response of the C2 Beacon's host terminal service execute   *)
(*     method" and its failure text "Command sent to the C2 Beacon but no  *)
(*     response was ever received"; nb "Because of the ACL rule the C2     *)
(*     beacon never receives the ... commands".                            *)
(*  K10 KeepAliveCarriesConfig (re-configuration is propagated by the next *)
(*     keep alive)  C2Beacon.configure docstring "If a connection is       *)
(*     already in progress then this method also sends a keep alive to the *)
(*     C2 Server in order for the C2 Server to sync with the new           *)
(*     configuration settings"; _craft_packet docstring.                   *)
(*     TrafficOnMasqueradePort:  rst "masquerade_port: What port should    *)
(*     the C2 traffic use?", "Masquerade Protocol: The protocol that the   *)
(*     C2 Beacon will use to communicate to the C2 Server with".  The      *)
(*     traffic of a connection uses the port / protocol that was           *)
(*     configured when that connection was ESTABLISHED (its session's):    *)
(*     the documented way of changing the masquerade mid-episode is        *)
(*     configure(...) followed by establish() (nb "Configurability |       *)
(*     masquerade_port & masquerade_protocol"); configure() on a live      *)
(*     connection only promises the keep alive that lets the server sync   *)
(*     its settings.  So: execute sends on the configured masquerade; an   *)
(*     answer travels in the session of what it answers; the periodic keep *)
(*     alive, the re-configuration keep alive and a command travel in the  *)
(*     session of the connection (bcn/srv .sport, .sproto).                *)
(*  K11 NothingThroughBlockOrOff    nb "Blocking C2 Traffic via ACL",      *)
(*     "Shutting down the node infected with a C2 Beacon"; relied on by    *)
(*     the blue agent's counter measures.                                  *)
(*                                                                         *)
(* SHAPE.  A stimulus (request / timestep of one application) is a         *)
(* top-level action, enabled when nothing is in flight (`Idle').  It may   *)
(* put ONE payload in `net'; the receiving handler is the next action      *)
(* (SrvKA, BcnKA, BcnInput, SrvOutput) or the payload is dropped (Drop);   *)
(* a handler may answer with one payload.  What the stimulus still has to  *)
(* do after the exchange is in `todo' (BcnConfirm: the beacon's check      *)
(* after its periodic keep alive; Return: the status of a request).        *)
(* Every action is `Guard /\ Apply(Out)' with Out a function of the        *)
(* current state and the logged values, so that the trace specification    *)
(* can name the part of the outcome an event disagrees with.               *)
(*                                                                         *)
(* pathKnown is a configuration variable: TRUE when the only path between  *)
(* the hosts is the router whose ACL the harness sets (env.blkBS/blkSB are *)
(* then authoritative and a payload is delivered iff the path is open);    *)
(* FALSE in a shipped scenario (delivery and sending are then only bounded *)
(* by what the hosts themselves allow).                                    *)
(***************************************************************************)
EXTENDS Naturals, Sequences

VARIABLES
    pathKnown,  \* configuration (never changes)
    env,        \* [bOn, sOn: host ON; bRun, sRun: application RUNNING; blkBS, blkSB: ACL blocks beacon->server / server->beacon]
    bcn,        \* [addr: configured with the server address, freq, port, proto, act: c2_connection_active,
                \*  inact: keep_alive_inactivity, att: keep_alive_attempted, sport, sproto: port / protocol of c2_session]
    srv,        \* [remote: knows the beacon's address, freq, port, proto, act, inact, sport, sproto]
    net,        \* the payload in flight (kind "none" when there is none)
    todo,       \* what the running stimulus still has to do: <<>>, <<"confirm">>, <<"ret">>
    retOk,      \* the status the running request must report
    last        \* <<name, parameters...>> of the last action (read by the driver and by the action properties)

svars == <<pathKnown, env, bcn, srv, net, todo, retOk, last>>

DefaultFreq  == 5
DefaultPort  == 80
DefaultProto == "tcp"
Cmds == {"ransomware_configure", "ransomware_launch", "terminal_command", "exfiltrate"}
Statuses == {"success", "failure"}

NoMsg == [kind |-> "none", to |-> "", freq |-> 0, port |-> 0, proto |-> "", cmd |-> "", status |-> "", wport |-> 0, wproto |-> ""]
\* a payload of kind k for `to', carrying the sender's settings r, travelling on port wp / protocol wpr
Msg(k, to, r, c, st, wp, wpr) == [kind |-> k, to |-> to, freq |-> r.freq, port |-> r.port, proto |-> r.proto,
                                  cmd |-> c, status |-> st, wport |-> wp, wproto |-> wpr]
NoSess(r) == [r EXCEPT !.sport = 0, !.sproto = ""]
SetSess(r, m) == [r EXCEPT !.sport = m.wport, !.sproto = m.wproto]
SetCfg(r, c) == [r EXCEPT !.freq = c.freq, !.port = c.port, !.proto = c.proto]
CfgOf(r) == [freq |-> r.freq, port |-> r.port, proto |-> r.proto]

Bcn0(addr) == [addr |-> addr, freq |-> DefaultFreq, port |-> DefaultPort, proto |-> DefaultProto,
               act |-> FALSE, inact |-> 0, att |-> FALSE, sport |-> 0, sproto |-> ""]
Srv0 == [remote |-> FALSE, freq |-> DefaultFreq, port |-> DefaultPort, proto |-> DefaultProto, act |-> FALSE, inact |-> 0,
         sport |-> 0, sproto |-> ""]
Env0 == [bOn |-> TRUE, sOn |-> TRUE, bRun |-> TRUE, sRun |-> TRUE, blkBS |-> FALSE, blkSB |-> FALSE]

C2Init(pk, e0, b0, s0) ==
    /\ pathKnown = pk /\ env = e0 /\ bcn = b0 /\ srv = s0
    /\ net = NoMsg /\ todo = <<>> /\ retOk = FALSE /\ last = <<"Init">>

\* K6: "Resets all currently established C2 communications to their default setting"
BcnReset(b) == NoSess([b EXCEPT !.addr = FALSE, !.act = FALSE, !.inact = 0,
                                !.freq = DefaultFreq, !.port = DefaultPort, !.proto = DefaultProto])
SrvReset(s) == NoSess([s EXCEPT !.remote = FALSE, !.act = FALSE, !.inact = 0,
                                !.freq = DefaultFreq, !.port = DefaultPort, !.proto = DefaultProto])

-----------------------------------------------------------------------------
Idle == net.kind = "none" /\ todo = <<>>
CanSendB == env.bOn /\ env.bRun
CanSendS == env.sOn /\ env.sRun
\* what a host lets in at all
Receivable(to) == IF to = "S" THEN env.sOn /\ env.sRun ELSE env.bOn /\ env.bRun
PathOpen(to) == IF to = "S" THEN env.bOn /\ ~env.blkBS /\ Receivable("S")
                            ELSE env.sOn /\ ~env.blkSB /\ Receivable("B")
Deliverable(to) == IF pathKnown THEN PathOpen(to) ELSE Receivable(to)
\* may / must a payload that the software is able to send actually leave?
SendOutcome(can) == IF can THEN (IF pathKnown THEN {TRUE} ELSE {TRUE, FALSE}) ELSE {FALSE}

State == [env |-> env, bcn |-> bcn, srv |-> srv, net |-> net, todo |-> todo, retOk |-> retOk]
Apply(o, l) == /\ env' = o.env /\ bcn' = o.bcn /\ srv' = o.srv /\ net' = o.net /\ todo' = o.todo /\ retOk' = o.retOk
               /\ last' = l /\ UNCHANGED pathKnown

-----------------------------------------------------------------------------
(* requests *)

\* c2-beacon `configure' (c = [freq, port, proto]; the address is the server's).  K10: an active beacon tells the server.
ConfigureGuard(c, sent) ==
    /\ Idle
    /\ sent \in (IF env.bOn /\ bcn.act THEN SendOutcome(CanSendB) ELSE {FALSE})
ConfigureOut(c, sent) ==
    IF ~env.bOn THEN [State EXCEPT !.todo = <<"ret">>, !.retOk = FALSE]      \* requests to a node that is off are refused
    ELSE LET b2 == [SetCfg(bcn, c) EXCEPT !.addr = TRUE] IN
         [State EXCEPT !.bcn = b2,
                       !.net = IF sent THEN Msg("ka", "S", b2, "", "", bcn.sport, bcn.sproto) ELSE NoMsg,
                       !.todo = <<"ret">>,
                       !.retOk = IF bcn.act THEN sent ELSE TRUE]
Configure(c, sent) == ConfigureGuard(c, sent) /\ Apply(ConfigureOut(c, sent), <<"Configure", c.freq, c.port, c.proto>>)

\* c2-beacon `execute' = establish(): K1.  `run' = the application is RUNNING afterwards.
MayEstablish == env.bOn /\ bcn.addr
EstablishGuard(sent, run) ==
    /\ Idle
    /\ IF MayEstablish
       THEN /\ (pathKnown \/ env.bRun) => run
            /\ sent \in SendOutcome(run)
       ELSE ~sent /\ run = env.bRun
EstablishOut(sent, run) ==
    IF MayEstablish
    THEN [State EXCEPT !.env = [env EXCEPT !.bRun = run],
                       !.net = IF sent THEN Msg("ka", "S", bcn, "", "", bcn.port, bcn.proto) ELSE NoMsg,   \* a new session
                       !.todo = <<"ret">>, !.retOk = sent]
    ELSE [State EXCEPT !.todo = <<"ret">>, !.retOk = FALSE]
Establish(sent, run) == EstablishGuard(sent, run) /\ Apply(EstablishOut(sent, run), <<"Establish">>)

\* c2-server ransomware_configure / ransomware_launch / terminal_command / exfiltrate = send_command(): K7
MayCommand == env.sOn /\ env.sRun /\ srv.remote
CommandGuard(c, sent) == Idle /\ c \in Cmds /\ sent \in SendOutcome(MayCommand)
CommandOut(c, sent) ==
    [State EXCEPT !.net = IF sent THEN Msg("in", "B", srv, c, "", srv.sport, srv.sproto) ELSE NoMsg,
                  !.todo = <<"ret">>, !.retOk = FALSE]       \* K9: success only through this command's output
Command(c, sent) == CommandGuard(c, sent) /\ Apply(CommandOut(c, sent), <<"Command", c>>)

\* the status of the request that has just run
ReturnGuard(ok) == net.kind = "none" /\ todo = <<"ret">> /\ ok = retOk
ReturnOut == [State EXCEPT !.todo = <<>>, !.retOk = FALSE]
Return(ok) == ReturnGuard(ok) /\ Apply(ReturnOut, <<"Return", ok>>)

-----------------------------------------------------------------------------
(* payload handlers *)

\* C2Server._handle_keep_alive: K3 learn address and settings, K4 answer exactly once
SrvKAGuard(sent) == net.kind = "ka" /\ net.to = "S" /\ Deliverable("S") /\ sent \in SendOutcome(TRUE)
SrvKAOut(sent) ==
    LET s2 == SetSess([SetCfg(srv, net) EXCEPT !.act = TRUE, !.remote = TRUE, !.inact = 0], net) IN
    [State EXCEPT !.srv = s2, !.net = IF sent THEN Msg("ka", "B", s2, "", "", net.wport, net.wproto) ELSE NoMsg]
SrvKA(sent) == SrvKAGuard(sent) /\ Apply(SrvKAOut(sent), <<"SrvKA">>)

\* C2Beacon._handle_keep_alive: the first answer is resolved and confirmed by a second keep alive, whose answer
\* completes the hand-shake (keep_alive_attempted stops the ping-pong)
BcnKAGuard(sent) == /\ net.kind = "ka" /\ net.to = "B" /\ Deliverable("B")
                    /\ sent \in (IF bcn.att THEN {FALSE} ELSE SendOutcome(TRUE))
BcnKAOut(sent) ==
    IF bcn.att
    THEN [State EXCEPT !.bcn = SetSess([bcn EXCEPT !.act = TRUE, !.inact = 0, !.att = FALSE], net), !.net = NoMsg]
    ELSE LET b2 == [SetCfg(bcn, net) EXCEPT !.act = TRUE, !.inact = 0, !.att = TRUE] IN
         [State EXCEPT !.bcn = b2, !.net = IF sent THEN Msg("ka", "S", b2, "", "", net.wport, net.wproto) ELSE NoMsg]
BcnKA(sent) == BcnKAGuard(sent) /\ Apply(BcnKAOut(sent), <<"BcnKA">>)

\* C2Beacon._handle_command_input: K8 `ran' = the command method that ran, K9 one output (its status is the host's business)
BcnInputGuard(ran, st, sent) ==
    /\ net.kind = "in" /\ net.to = "B" /\ Deliverable("B")
    /\ ran = net.cmd /\ st \in Statuses /\ sent \in SendOutcome(TRUE)
BcnInputOut(ran, st, sent) ==
    [State EXCEPT !.net = IF sent THEN Msg("out", "S", bcn, net.cmd, st, net.wport, net.wproto) ELSE NoMsg]
BcnInput(ran, st, sent) == BcnInputGuard(ran, st, sent) /\ Apply(BcnInputOut(ran, st, sent), <<"BcnInput", ran, st>>)

\* C2Server._handle_command_output
SrvOutputGuard == net.kind = "out" /\ net.to = "S" /\ Deliverable("S")
SrvOutputOut == [State EXCEPT !.net = NoMsg, !.retOk = (net.status = "success")]
SrvOutput == SrvOutputGuard /\ Apply(SrvOutputOut, <<"SrvOutput">>)

\* K11: a payload that meets a blocking ACL, a host that is off or an application that is not running goes nowhere
DropGuard == net.kind # "none" /\ (pathKnown => ~PathOpen(net.to))
DropOut == [State EXCEPT !.net = NoMsg]
Drop == DropGuard /\ Apply(DropOut, <<"Drop">>)

-----------------------------------------------------------------------------
(* the timestep of each application (a host that is ON steps its applications) *)

\* K5: the beacon confirms its connection every `freq' timesteps
Due(i, f) == i >= f
BcnCounts == env.bRun /\ bcn.act
BcnTickGuard(sent) ==
    /\ Idle /\ env.bOn
    /\ sent \in (IF BcnCounts /\ Due(bcn.inact + 1, bcn.freq) THEN SendOutcome(TRUE) ELSE {FALSE})
BcnTickOut(sent) ==
    IF ~BcnCounts THEN State
    ELSE LET b2 == [bcn EXCEPT !.inact = bcn.inact + 1, !.att = FALSE] IN
         IF Due(b2.inact, b2.freq)
         THEN [State EXCEPT !.bcn = b2, !.net = IF sent THEN Msg("ka", "S", b2, "", "", b2.sport, b2.sproto) ELSE NoMsg,
                            !.todo = <<"confirm">>]
         ELSE [State EXCEPT !.bcn = b2]
BcnTick(sent) == BcnTickGuard(sent) /\ Apply(BcnTickOut(sent), <<"BcnTick">>)

\* K6: no answer to the keep alive just sent => the connection is lost, everything back to default, the beacon closes
BcnConfirmGuard == net.kind = "none" /\ todo = <<"confirm">>
BcnConfirmOut ==
    IF bcn.inact # 0
    THEN [State EXCEPT !.bcn = BcnReset(bcn), !.env = [env EXCEPT !.bRun = FALSE], !.todo = <<>>]
    ELSE [State EXCEPT !.todo = <<>>]
BcnConfirm == BcnConfirmGuard /\ Apply(BcnConfirmOut, <<"BcnConfirm">>)

\* K6 (server side): more than `freq' timesteps without a keep alive => the beacon is considered dead
SrvTickGuard == Idle /\ env.sOn
SrvTickOut ==
    IF ~(env.sRun /\ srv.act) THEN State
    ELSE LET s2 == [srv EXCEPT !.inact = srv.inact + 1] IN
         [State EXCEPT !.srv = IF s2.inact > s2.freq THEN SrvReset(s2) ELSE s2]
SrvTick == SrvTickGuard /\ Apply(SrvTickOut, <<"SrvTick">>)

-----------------------------------------------------------------------------
(* the environment *)

AclGuard(dir, blk) == Idle /\ pathKnown /\ dir \in {"BS", "SB"}
AclOut(dir, blk) == [State EXCEPT !.env = IF dir = "BS" THEN [env EXCEPT !.blkBS = blk] ELSE [env EXCEPT !.blkSB = blk]]
Acl(dir, blk) == AclGuard(dir, blk) /\ Apply(AclOut(dir, blk), <<"Acl", dir, blk>>)

\* instantaneous node shutdown / startup: shutting down closes the applications, starting up runs them
PowerGuard(node, on) == Idle /\ node \in {"B", "S"}
PowerOut(node, on) ==
    IF node = "B"
    THEN (IF env.bOn = on THEN State ELSE [State EXCEPT !.env = [env EXCEPT !.bOn = on, !.bRun = on]])
    ELSE (IF env.sOn = on THEN State ELSE [State EXCEPT !.env = [env EXCEPT !.sOn = on, !.sRun = on]])
Power(node, on) == PowerGuard(node, on) /\ Apply(PowerOut(node, on), <<"Power", node, on>>)

\* application `close' request
CloseGuard(app) == Idle /\ app \in {"B", "S"}
CloseOut(app) ==
    IF app = "B" THEN (IF env.bOn THEN [State EXCEPT !.env = [env EXCEPT !.bRun = FALSE]] ELSE State)
                 ELSE (IF env.sOn THEN [State EXCEPT !.env = [env EXCEPT !.sRun = FALSE]] ELSE State)
Close(app) == CloseGuard(app) /\ Apply(CloseOut(app), <<"Close", app>>)

\* shipped scenario: hosts, applications and the path change for reasons outside this module
EnvGuard(e2) == Idle /\ ~pathKnown /\ (e2.bRun => e2.bOn) /\ (e2.sRun => e2.sOn)
EnvOut(e2) == [State EXCEPT !.env = e2]
EnvSet(e2) == EnvGuard(e2) /\ Apply(EnvOut(e2), <<"Env">>)

-----------------------------------------------------------------------------
(* the clauses as state invariants / action properties of the module *)

Nat5 == 0..64
CfgOK(r) == r.freq \in 1..64 /\ r.port \in {80, 21, 53} /\ r.proto \in {"tcp", "udp"}
SessOK(r) == r.sport \in {0, 80, 21, 53} /\ r.sproto \in {"", "tcp", "udp"}
TypeOK ==
    /\ pathKnown \in BOOLEAN /\ retOk \in BOOLEAN
    /\ \A k \in {"bOn", "sOn", "bRun", "sRun", "blkBS", "blkSB"} : env[k] \in BOOLEAN
    /\ bcn.addr \in BOOLEAN /\ bcn.act \in BOOLEAN /\ bcn.att \in BOOLEAN /\ bcn.inact \in Nat5 /\ CfgOK(bcn) /\ SessOK(bcn)
    /\ srv.remote \in BOOLEAN /\ srv.act \in BOOLEAN /\ srv.inact \in Nat5 /\ CfgOK(srv) /\ SessOK(srv)
    /\ net.kind \in {"none", "ka", "in", "out"}
    /\ todo \in {<<>>, <<"confirm">>, <<"ret">>}
\* nothing runs on a host that is off
InvRunNeedsOn == (env.bRun => env.bOn) /\ (env.sRun => env.sOn)
\* K1: a beacon that holds a connection has been configured with the address
InvActiveIsConfigured == bcn.act => bcn.addr
\* K3 / K7: the server's connection is active exactly while it knows the beacon's address
InvServerActiveIffRemote == srv.act <=> srv.remote
\* the hand-shake flag is only up while a keep alive exchange is under way
InvAttemptOnlyInFlight == Idle => ~bcn.att
\* K5 / K6: a running, connected beacon never stays silent for longer than its frequency (+ the re-configuration slack)
InvInactivityBounded(maxf) == (Idle /\ BcnCounts) => bcn.inact <= maxf

Name(l) == l[1]
\* K1
PropEstablishOnlyWhenConfigured ==
    [][(Name(last') = "Establish" /\ net'.kind = "ka") => (env.bOn /\ bcn.addr /\ env'.bRun)]_svars
\* K2: the beacon's connection becomes active only through a keep alive from the server, all four up
PropConnectionNeedsBothRunning ==
    [][(~bcn.act /\ bcn'.act) => (Name(last') = "BcnKA" /\ env.bOn /\ env.bRun /\ env.sOn /\ env.sRun /\ bcn.addr)]_svars
\* K3
PropServerLearnsFromKeepAlive ==
    [][/\ (~srv.remote /\ srv'.remote) => Name(last') = "SrvKA"
       /\ Name(last') = "SrvKA" => (srv'.remote /\ srv'.act /\ srv'.inact = 0 /\ CfgOf(srv') = CfgOf(net))]_svars
\* K4
PropAnswersEachKeepAliveOnce ==
    [][(Name(last') = "SrvKA" /\ pathKnown) => (net'.kind = "ka" /\ net'.to = "B" /\ CfgOf(net') = CfgOf(srv'))]_svars
\* K5
PropKeepAliveEveryFrequency ==
    [][(Name(last') = "BcnTick" /\ pathKnown)
         => ((net'.kind = "ka") <=> (env.bRun /\ bcn.act /\ bcn.inact + 1 >= bcn.freq))]_svars
\* K6
PropLostAfterMissedKeepAlive ==
    [][Name(last') = "BcnConfirm" =>
         IF bcn.inact # 0 THEN ~bcn'.act /\ ~bcn'.addr /\ ~env'.bRun /\ CfgOf(bcn') = CfgOf(Bcn0(FALSE))
                          ELSE bcn' = bcn /\ env' = env]_svars
PropServerDropsAfterInactivity ==
    [][(Name(last') = "SrvTick" /\ env.sRun /\ srv.act) =>
         IF srv.inact + 1 > srv.freq THEN srv' = Srv0 ELSE srv' = [srv EXCEPT !.inact = srv.inact + 1]]_svars
\* K7
PropCommandOnlyWhileActive ==
    [][(Name(last') = "Command" /\ net'.kind = "in") => (srv.act /\ env.sOn /\ env.sRun)]_svars
\* K8 / K9
PropExecutesExactlyTheCommandSent ==
    [][Name(last') = "BcnInput" => (last'[2] = net.cmd /\ (pathKnown => (net'.kind = "out" /\ net'.cmd = net.cmd)))]_svars
PropResponseIsThisCommandsOutput ==
    [][(Name(last') = "Return" /\ last'[2]) => retOk]_svars
\* K10
PropKeepAliveCarriesConfig ==
    [][(net'.kind = "ka" /\ net'.to = "S" /\ net' # net) => CfgOf(net') = CfgOf(bcn')]_svars
\* K10: execute sends on the configured masquerade; an answer travels in the session of what it answers; whatever
\* else a connection sends travels in its session
InvConnectionHasSession == (bcn.act /\ ~bcn.att => bcn.sport # 0) /\ (srv.act => srv.sport # 0)
PropTrafficOnMasqueradePort ==
    [][(net'.kind # "none" /\ net' # net) =>
         CASE Name(last') = "Establish" -> net'.wport = bcn.port /\ net'.wproto = bcn.proto
           [] Name(last') \in {"SrvKA", "BcnKA", "BcnInput"} -> net'.wport = net.wport /\ net'.wproto = net.wproto
           [] Name(last') \in {"Configure", "BcnTick"} -> net'.wport = bcn.sport /\ net'.wproto = bcn.sproto
           [] Name(last') = "Command" -> net'.wport = srv.sport /\ net'.wproto = srv.sproto
           [] OTHER -> FALSE]_svars
\* K11
PropNothingThroughBlockOrOff ==
    [][(Name(last') \in {"SrvKA", "SrvOutput"} => Deliverable("S"))
       /\ (Name(last') \in {"BcnKA", "BcnInput"} => Deliverable("B"))]_svars
=============================================================================
