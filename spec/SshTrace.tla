------------------------------ MODULE SshTrace ------------------------------
(* Trace validation of recorded executions of Terminal / UserSessionManager against Ssh.tla (batch idiom of      *)
(* LinkTrace.tla).  A trace is [cfg |-> [nodes, timeout, maxRemote, on, run, net], ev |-> <<event ..>>].         *)
(* An event is                                                                                                   *)
(*   [ev |-> "Begin"|"LoginSend"|"LoginRecv"|"LoginOkRecv"|"CmdSend"|"CmdRecv"|"CmdReplyRecv"|"DiscSend"|        *)
(*           "KickSend"|"DiscRecv"|"TimeoutPush"|"TimeoutRecv"|"Lost"|"LocalExec"|"Return"|"TickBegin"|"TickEnd"| *)
(*           "Power"|"SvcSet"|"Block"|"Env"|"Raised",                                                            *)
(*    kind, nd, peer, good, cmd, id, out, nout, ok, st, tag, exec, via, flag, eff,     (arguments / results)      *)
(*    on, run, net, tb]                 (state projected from the real objects when the event was completed)      *)
(*   nd   : the node whose request / handler / send this is      id : connection id (canonical number, 0 = none) *)
(*   out  : kind of the message the handler sent ("" = none), nout = how many it sent                            *)
(*   st / tag : status of an answer and the number of the command its data belongs to (0 = none)                 *)
(*   eff  : nodes on which the effect of the command of the call is visible (Return)                             *)
(*   tb   : node -> [cli, srv, sess : sequences of [id, peer]]   (cfg.tb / cfg.nid: the tables a trace starts from;   *)
(*          a trace that starts in the middle of a run gives every session of cfg.tb its idle time so far)        *)
(* A handler's event is completed when the handler returns (nested handlers on OTHER nodes have then run as      *)
(* well): only tb[nd] of such an event is compared; Begin / Return / tick / environment events compare all of tb.*)
EXTENDS Ssh, TLC, TLCExt, Json, IOUtils, Sequences

Traces == JsonDeserialize(IOEnv.TRACE_FILE)
VARIABLES tid, l
tvars == <<svars, tid, l>>
T == Traces[tid].ev
Cfg == Traces[tid].cfg

SetOf(s) == {s[i] : i \in 1..Len(s)}
Pairs(s) == {[id |-> s[i].id, peer |-> s[i].peer] : i \in 1..Len(s)}
NoDup(s) == Cardinality(Pairs(s)) = Len(s)
Strip(S) == {[id |-> x.id, peer |-> x.peer] : x \in S}
\* the tables of node x as an event shows them / as the module has them
Seen(e, x) == [cli |-> Pairs(e.tb[x].cli), srv |-> Pairs(e.tb[x].srv), sess |-> Pairs(e.tb[x].sess)]
Have(x) == [cli |-> cli[x], srv |-> srv[x], sess |-> Strip(sess[x])]
DropP(S, id) == {x \in S : x.id # id}

Handlers == {"LoginRecv", "LoginOkRecv", "CmdRecv", "CmdReplyRecv", "DiscRecv", "TimeoutRecv"}
Sends == {"LoginSend", "CmdSend", "DiscSend", "KickSend", "TimeoutPush"}
Global == {"Begin", "Return", "TickBegin", "TickEnd", "Power", "SvcSet", "Block", "Env", "Lost", "LocalExec"}
WireKind(e) ==
    CASE e.ev = "LoginRecv" -> "LoginReq" [] e.ev = "LoginOkRecv" -> "LoginOk" [] e.ev = "CmdRecv" -> "Cmd"
      [] e.ev = "CmdReplyRecv" -> "CmdReply" [] e.ev = "DiscRecv" -> "Disc" [] e.ev = "TimeoutRecv" -> "Timeout"
      [] OTHER -> "?"
KindOfSend(e) ==
    CASE e.ev = "LoginSend" -> "login" [] e.ev = "CmdSend" -> "cmd" [] e.ev = "DiscSend" -> "logoff"
      [] e.ev = "KickSend" -> "kick" [] e.ev = "TimeoutPush" -> "tick" [] OTHER -> "?"

\* the event can be interpreted at all in the current state (everything below is guarded by it)
Safe(e) ==
    /\ e.nd \in nodes \/ e.ev \in {"TickBegin", "TickEnd", "Block", "Env", "Lost"}
    /\ CASE e.ev = "Begin" -> Quiet /\ e.kind \in Kinds \ {"tick"} /\ (e.kind \in {"login", "cmd", "logoff"} => e.peer \in nodes \ {e.nd})
         [] e.ev \in Handlers -> wire.k = WireKind(e) /\ wire.dst = e.nd
         [] e.ev \in Sends \ {"TimeoutPush"} -> InCall(KindOfSend(e), e.nd) /\ wire = Nil /\ ~call.sent
         [] e.ev = "TimeoutPush" -> Open /\ call.kind = "tick" /\ wire = Nil /\ e.id \in Ids(sess[e.nd])
         [] e.ev = "Lost" -> wire # Nil
         [] e.ev = "LocalExec" -> InCall("local", e.nd)
         [] e.ev = "Return" -> InCall(e.kind, e.nd) /\ wire = Nil
         [] e.ev = "TickBegin" -> Quiet
         [] e.ev = "TickEnd" -> Open /\ call.kind = "tick" /\ wire = Nil
         [] e.ev \in {"Power", "SvcSet", "Block", "Env"} -> Quiet
         [] OTHER -> FALSE

\* what the tables of e.nd must look like after the event
Expected(e) ==
    LET h == Have(e.nd) IN
    CASE e.ev = "LoginRecv" /\ e.id # 0 ->
             [h EXCEPT !.srv = @ \cup {[id |-> e.id, peer |-> wire.src]}, !.sess = @ \cup {[id |-> e.id, peer |-> wire.src]}]
      [] e.ev = "LoginOkRecv" -> [h EXCEPT !.cli = @ \cup {[id |-> wire.id, peer |-> wire.src]}]
      [] e.ev = "CmdRecv" /\ ~e.exec -> [h EXCEPT !.srv = DropP(@, wire.id)]
      [] e.ev = "DiscSend" -> [h EXCEPT !.cli = @ \ {[id |-> e.id, peer |-> call.peer]}]
      [] e.ev = "KickSend" -> [h EXCEPT !.srv = DropP(@, call.id)]
      [] e.ev = "DiscRecv" ->
             LET both == HeldSrv(e.nd, wire.id) /\ wire.id \in Ids(sess[e.nd]) IN
             [cli |-> h.cli \ {[id |-> wire.id, peer |-> wire.src]}, srv |-> DropP(h.srv, wire.id),
              sess |-> IF both THEN DropP(h.sess, wire.id) ELSE h.sess]
      [] e.ev = "TimeoutPush" -> [h EXCEPT !.srv = DropP(@, e.id), !.sess = DropP(@, e.id)]
      [] e.ev = "TimeoutRecv" -> [h EXCEPT !.cli = @ \ {[id |-> wire.id, peer |-> wire.src]}]
      [] e.ev = "Return" /\ e.kind = "kick" /\ on[e.nd] -> [h EXCEPT !.sess = DropP(@, call.id)]
      [] OTHER -> h
\* connection ids that exist now and did not when the call began
NewAt(e, x, f) == {p \in Seen(e, x)[f] : p.id \notin (UNION {Ids(pre.cli[y]) \cup Ids(pre.srv[y]) \cup pre.sess[y] : y \in nodes})}

\* named clauses (K1..K7 of Ssh.tla and the binding clauses), all predicates of (current spec state, event)
Clauses(e) ==
    LET s == Safe(e)
        h == e.ev \in Handlers
        ret(k) == s /\ e.ev = "Return" /\ e.kind = k
    IN
    [ NoException        |-> e.ev # "Raised",
      CallBracket        |-> s,
      FieldsAsDeclared   |-> /\ DOMAIN e.tb = nodes /\ DOMAIN e.on = nodes /\ DOMAIN e.run = nodes
                             /\ \A x \in nodes : NoDup(e.tb[x].cli) /\ NoDup(e.tb[x].srv) /\ NoDup(e.tb[x].sess)
                             /\ e.nout \in 0..1 /\ (e.nout = 0) = (e.out = "")
                             /\ (e.ev \notin {"Begin", "Return"} => e.kind = "")
                             /\ (e.ev \notin {"Begin", "Return"} => e.via = "")
                             /\ (e.ev \in {"Begin", "Return"} => e.via \in {"req", "api"})
                             /\ (e.ev \in {"TickBegin", "TickEnd", "Block", "Env", "Lost"} => e.nd = "")
                             /\ (e.ev = "Begin" /\ e.kind \in {"cmd", "local"} => e.cmd > 0)
                             /\ (e.ev = "Return" /\ e.kind = "cmd" /\ e.via = "api" => e.tag = 0)
                             /\ (e.ev = "Begin" => /\ (e.kind \notin {"login", "local"} => ~e.good)
                                                   /\ (e.kind \notin {"cmd", "local"} => e.cmd = 0)
                                                   /\ (e.kind # "kick" => e.id = 0)
                                                   /\ (e.kind \in {"kick", "local"} => e.peer = ""))
                             /\ (e.ev = "Return" => /\ (e.kind \notin {"cmd", "local"} => (e.tag = 0 /\ Len(e.eff) = 0))
                                                    /\ ((e.kind = "kick" \/ (e.kind = "cmd" /\ e.via = "api")) => e.st = ""))
                             /\ (e.ev \notin {"Begin", "LoginRecv", "CmdSend", "DiscSend", "TimeoutPush"} => e.id = 0)
                             /\ (e.ev \notin {"Begin"} => (e.peer = "" /\ ~e.good /\ e.cmd = 0))
                             /\ (e.ev \notin {"CmdRecv", "LocalExec", "Return"} => e.st = "")
                             /\ (e.ev \notin {"Return"} => (e.tag = 0 /\ ~e.ok /\ Len(e.eff) = 0))
                             /\ (e.ev \notin {"CmdRecv"} => ~e.exec)
                             /\ (e.ev \notin {"Power", "SvcSet", "Block"} => ~e.flag),
      \* ---- K5
      OnlyRunningSends   |-> (s /\ e.ev \in {"LoginSend", "CmdSend", "DiscSend"}) => Up(e.nd),
      OnlyRunningHandles |-> (s /\ (h \/ e.ev = "LocalExec")) => Up(e.nd),
      \* ---- the network between the terminals
      Delivered          |-> /\ (s /\ h) => MayDeliver(wire)
                             /\ (s /\ e.ev = "Lost") => ~MustDeliver(wire),
      OneMessagePerStep  |-> s => CASE e.ev = "LoginRecv" -> e.out = (IF e.id # 0 THEN "LoginOk" ELSE "")
                                    [] e.ev = "CmdRecv" -> IF e.exec THEN e.out = "CmdReply" ELSE e.out \in {"", "Disc"}
                                    [] e.ev = "DiscRecv" -> /\ e.out \in {"", "Disc"}
                                                            /\ (e.out = "Disc" => (HeldSrv(e.nd, wire.id) \/ HeldCli(e.nd, wire.id, wire.src)))
                                    [] OTHER -> e.out = "",
      \* ---- K1
      LoginOnlyIfEntitled |-> (s /\ e.ev = "LoginRecv") => (e.id # 0 => Entitled(e.nd, wire)),
      LoginIfEntitled     |-> (s /\ e.ev = "LoginRecv") => (Entitled(e.nd, wire) => e.id # 0),
      FreshId             |-> (s /\ e.ev = "LoginRecv" /\ e.id # 0) => e.id > nid,
      SameIdBothEnds      |-> (ret("login") /\ e.ok) =>
                                 /\ call.got
                                 /\ \E p \in NewAt(e, e.nd, "cli") :
                                       /\ p.peer = call.peer
                                       /\ [id |-> p.id, peer |-> e.nd] \in Seen(e, call.peer).srv
                                       /\ [id |-> p.id, peer |-> e.nd] \in Seen(e, call.peer).sess,
      FailedLoginLeavesNothing |-> (ret("login") /\ ~e.ok /\ net # "unknown") =>
                                 \A x \in nodes : NewAt(e, x, "cli") = {} /\ NewAt(e, x, "srv") = {} /\ NewAt(e, x, "sess") = {},
      LoginAnswer         |-> ret("login") => (e.ok = call.got),
      \* ---- K2
      UsesOwnClientConnection |-> (s /\ e.ev \in {"CmdSend", "DiscSend"}) => [id |-> e.id, peer |-> call.peer] \in cli[e.nd],
      ExecIffValid        |-> (s /\ e.ev = "CmdRecv") => (e.exec = ValidAt(e.nd, wire.id)),
      ExecOnServerOnly    |-> ret("cmd") =>
                                 /\ call.execs <= 1
                                 /\ SetOf(e.eff) \subseteq {call.peer}
                                 /\ (SetOf(e.eff) # {} => call.execs = 1),
      \* ---- K3
      AnswerIsThisCommand |-> (ret("cmd") /\ e.via = "req") =>
                                 IF call.got THEN e.st = call.rst /\ e.tag \in {0, call.cmd} /\ call.rcmd = call.cmd
                                 ELSE e.st = "failure" /\ e.tag = 0,
      \* ---- K4
      TimeoutOnlyWhenDue  |-> (s /\ e.ev = "TimeoutPush") => \E x \in sess[e.nd] : x.id = e.id /\ x.idle >= timeout,
      OverdueAreGone      |-> (s /\ e.ev = "TickEnd") => \A x \in nodes : \A y \in sess[x] : y.idle <= timeout,
      LogoffAnswer        |-> ret("logoff") => (e.ok = call.sent),
      KickAnswer          |-> ret("kick") => (e.ok = (on[e.nd] /\ call.id \in Ids(sess[e.nd]))),
      \* ---- K6
      LocalNeedsCredentials |-> (s /\ e.ev = "LocalExec") => (call.good /\ call.execs = 0),
      LocalAnswerSaysSo   |-> ret("local") => (e.ok => call.execs = 1),
      LocalMustExecute    |-> ret("local") => ((call.good /\ Up(e.nd)) => call.execs = 1),
      LocalAnswerTag      |-> ret("local") => e.tag \in {0, call.cmd},
      ApiCommandAnswer    |-> (ret("cmd") /\ e.via = "api") => (e.ok = call.sent),
      SameEntryAsBegin    |-> (s /\ e.ev = "Return") => e.via = call.via,
      LocalEffect         |-> ret("local") => (SetOf(e.eff) \subseteq {e.nd} /\ (SetOf(e.eff) # {} => call.execs = 1)),
      \* ---- K7
      Answered            |-> (s /\ e.ev = "Return" /\ e.via = "req") => (e.st \in Statuses /\ e.ok = (e.st = "success")),
      \* ---- binding: the tables change only by the actions that may change them, and as they say
      TablesAsSpecified   |-> s => IF e.ev \in Global
                                   THEN \A x \in nodes : Seen(e, x) = (IF x = e.nd THEN Expected(e) ELSE Have(x))
                                   ELSE Seen(e, e.nd) = Expected(e),
      PowerStates         |-> s => CASE e.ev = "Power" -> \A x \in nodes \ {e.nd} : e.on[x] = on[x] /\ e.run[x] = run[x]
                                     [] e.ev = "SvcSet" -> e.on = on /\ \A x \in nodes \ {e.nd} : e.run[x] = run[x]
                                     [] e.ev = "Env" -> TRUE
                                     [] OTHER -> e.on = on /\ e.run = run,
      NetAsDriven         |-> s => IF e.ev = "Block" THEN e.net = (IF e.flag THEN "blocked" ELSE "open") ELSE e.net = net
    ]
Failing(e) == LET cl == Clauses(e) IN {c \in DOMAIN cl : ~cl[c]}

Step(e) ==
    CASE e.ev = "Begin"        -> BeginVia(e.kind, e.via, e.nd, e.peer, e.good, e.cmd, e.id)
      [] e.ev = "LoginSend"    -> LoginSend(e.nd)
      [] e.ev = "LoginRecv"    -> LoginRecv(e.nd, e.id)
      [] e.ev = "LoginOkRecv"  -> LoginOkRecv(e.nd)
      [] e.ev = "CmdSend"      -> CmdSend(e.nd, e.id)
      [] e.ev = "CmdRecv"      -> CmdRecv(e.nd, e.exec, e.st, e.out)
      [] e.ev = "CmdReplyRecv" -> CmdReplyRecv(e.nd)
      [] e.ev = "DiscSend"     -> DiscSend(e.nd, e.id)
      [] e.ev = "KickSend"     -> KickSend(e.nd)
      [] e.ev = "DiscRecv"     -> DiscRecv(e.nd, e.out)
      [] e.ev = "TimeoutPush"  -> TimeoutPush(e.nd, e.id)
      [] e.ev = "TimeoutRecv"  -> TimeoutRecv(e.nd)
      [] e.ev = "Lost"         -> Lost
      [] e.ev = "LocalExec"    -> LocalExec(e.nd, e.st)
      [] e.ev = "Return" ->
            CASE e.kind = "login"  -> LoginReturn(e.nd, e.ok, e.st)
              [] e.kind = "cmd"    -> IF e.via = "req" THEN CmdReturn(e.nd, e.st, IF call.got THEN call.rcmd ELSE 0)
                                      ELSE CmdReturn(e.nd, IF call.got THEN call.rst ELSE "failure", IF call.got THEN call.rcmd ELSE 0)
              [] e.kind = "logoff" -> LogoffReturn(e.nd, e.ok, e.st)
              [] e.kind = "kick"   -> KickReturn(e.nd, e.ok)
              [] e.kind = "local"  -> LocalReturn(e.nd, e.ok, e.st)
              [] OTHER -> FALSE
      [] e.ev = "TickBegin"    -> TickBegin
      [] e.ev = "TickEnd"      -> TickEnd
      [] e.ev = "Power"        -> Power(e.nd, e.on[e.nd], e.run[e.nd])
      [] e.ev = "SvcSet"       -> SvcSet(e.nd, e.run[e.nd])
      [] e.ev = "Block"        -> Block(e.flag)
      [] e.ev = "Env"          -> Env(e.on, e.run)
      [] OTHER -> FALSE

TraceInit ==
    /\ tid \in 1..Len(Traces)
    /\ l = 1
    /\ nodes = SetOf(Cfg.nodes) /\ timeout = Cfg.timeout /\ maxRemote = Cfg.maxRemote
    /\ on = Cfg.on /\ run = Cfg.run /\ net = Cfg.net
    /\ cli = [x \in SetOf(Cfg.nodes) |-> Pairs(Cfg.tb[x].cli)]
    /\ srv = [x \in SetOf(Cfg.nodes) |-> Pairs(Cfg.tb[x].srv)]
    /\ sess = [x \in SetOf(Cfg.nodes) |-> {[id |-> Cfg.tb[x].sess[i].id, peer |-> Cfg.tb[x].sess[i].peer, idle |-> Cfg.tb[x].sess[i].idle] :
                                              i \in 1..Len(Cfg.tb[x].sess)}]
    /\ nid = Cfg.nid /\ ended = {} /\ wire = Nil /\ call = Idle
    /\ pre = [cli |-> [x \in SetOf(Cfg.nodes) |-> Pairs(Cfg.tb[x].cli)], srv |-> [x \in SetOf(Cfg.nodes) |-> Pairs(Cfg.tb[x].srv)],
              sess |-> [x \in SetOf(Cfg.nodes) |-> Ids(Pairs(Cfg.tb[x].sess))], ended |-> {}]
TraceNext ==
    /\ l <= Len(T)
    /\ Failing(T[l]) = {}
    /\ Step(T[l])
    /\ l' = l + 1
    /\ UNCHANGED tid
TraceSpec == TraceInit /\ [][TraceNext]_tvars

SeenReg == TLCGet(tid)
Fn(f) == [x \in DOMAIN f |-> f[x]]
Record ==
    IF l > SeenReg.pos
    THEN TLCSet(tid, [pos |-> l,
                      fail |-> IF l <= Len(T) THEN Failing(T[l]) ELSE {},
                      st |-> [on |-> Fn(on), run |-> Fn(run), net |-> net, cli |-> Fn(cli), srv |-> Fn(srv), sess |-> Fn(sess),
                              nid |-> nid, wire |-> wire, call |-> call]])
    ELSE TRUE
InitRegs == \A i \in 1..Len(Traces) : TLCSet(i, [pos |-> 0, fail |-> {}, st |-> <<>>])
ASSUME InitRegs
Report ==
    \A i \in 1..Len(Traces) :
        LET r == TLCGet(i) IN
        /\ PrintT(<<"TRACE", i, r.pos, Len(Traces[i].ev)>>)
        /\ (r.pos = Len(Traces[i].ev) + 1 \/ PrintT(<<"STUCK", i, r.pos, r.fail, r.st>>))
=============================================================================
