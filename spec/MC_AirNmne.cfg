SPECIFICATION Spec
CONSTANTS
  MaxSteps = 4
  MaxNest = 2
  Rich = FALSE
  Variant = "design"
INVARIANT LoadWithinCapacity
INVARIANT EnabledOnlyIfNodeOn
INVARIANT NothingCapturedWhenOffOrNoKeywords
INVARIANT SenderNeverReceivesOwnFrame
INVARIANT OnAirWellFormed
INVARIANT ReceiversEnabledOnFrequency
INVARIANT CountedOncePerFrame
INVARIANT KeysWellFormed
PROPERTY CountsNeverDecrease
PROPERTY LoadResetsEachTimestep
PROPERTY LoadOnlyGrowsWithinTimestep
PROPERTY DroppedReachesNobody
VIEW View
CHECK_DEADLOCK FALSE
