----------------------------- MODULE NodePower -----------------------------
(***************************************************************************)
(* Power state machine of one node and what it gates.  Property C12.       *)
(*                                                                         *)
(*   ON -> SD (shutting down) -> OFF -> BOOT (booting) -> ON               *)
(*                                                                         *)
(* Timing (documented in base_hardware.rst: `for i in range(duration+1)`): *)
(* a request arms the transition, the node is then seen in the             *)
(* transitional state for `duration` ticks and completes on the next one;  *)
(* with duration 0 the transition is instantaneous inside the request.  A  *)
(* request is followed by a tick in the same environment step, so an agent *)
(* sees the new state exactly `duration` steps after its request.          *)
(* reset = shutdown followed by an automatic start when OFF is reached.    *)
(*                                                                         *)
(* upDur, downDur, nNic are configuration variables (never change).        *)
(***************************************************************************)
EXTENDS Naturals, Sequences, FiniteSets

VARIABLES
    upDur, downDur,  \* configured start-up / shut-down durations
    st,              \* "ON" | "SD" | "OFF" | "BOOT"
    age,             \* ticks spent in the current transitional state
    resetting,       \* a reset is in progress
    nic,             \* sequence of BOOLEAN: interface i is enabled
    run,             \* set of names of software that is running (services RUNNING, applications RUNNING)
    snapNic, snapRun \* what was up when the node last left ON

pvars == <<upDur, downDur, st, age, resetting, nic, run, snapNic, snapRun>>

States == {"ON", "SD", "OFF", "BOOT"}
AllDown(n) == \A i \in 1..Len(n) : ~n[i]

PowerInit(u, d, s0, n0, r0) ==
    /\ upDur = u /\ downDur = d
    /\ st = s0 /\ age = 0 /\ resetting = FALSE
    /\ nic = n0 /\ run = r0
    /\ snapNic = [i \in 1..Len(n0) |-> FALSE] /\ snapRun = {}

PowerAccepted(kind) == IF kind = "startup" THEN st = "OFF" ELSE st = "ON"

StartTarget == IF upDur = 0 THEN "ON" ELSE "BOOT"

AfterPower(kind) ==
    CASE kind = "startup"  -> StartTarget
      [] kind = "shutdown" -> IF downDur = 0 THEN "OFF" ELSE "SD"
      [] kind = "reset"    -> IF downDur = 0 THEN StartTarget ELSE "SD"

AfterTick ==
    CASE st = "SD"   /\ age >= downDur -> IF resetting THEN StartTarget ELSE "OFF"
      [] st = "BOOT" /\ age >= upDur   -> "ON"
      [] OTHER -> st

(* What must hold of the projected state (s2, n2, r2) reached from the     *)
(* current state.                                                          *)
NicsDownUnlessOn(s2, n2)   == s2 # "ON" => AllDown(n2)
NothingRunsWhenOff(s2, r2) == s2 = "OFF" => r2 = {}
\* the node (re)enters ON: what was up before comes back up
ComesBackUp(s2, n2, r2, sn, sr) ==
    (s2 = "ON" /\ (st # "ON" \/ sn # snapNic \/ sr # snapRun)) =>
        /\ \A i \in 1..Len(n2) : sn[i] => n2[i]
        /\ sr \subseteq r2
PostOK(s2, n2, r2, sn, sr) ==
    /\ NicsDownUnlessOn(s2, n2) /\ NothingRunsWhenOff(s2, r2) /\ ComesBackUp(s2, n2, r2, sn, sr)

(* shutdown / startup / reset request *)
ReqPower(kind, success, n2, r2) ==
    IF PowerAccepted(kind)
    THEN LET leaving == kind \in {"shutdown", "reset"}
             sn == IF leaving THEN nic ELSE snapNic
             sr == IF leaving THEN run ELSE snapRun
         IN  /\ success
             /\ st' = AfterPower(kind)
             /\ age' = 0
             /\ resetting' = (kind = "reset" /\ AfterPower(kind) = "SD")
             /\ snapNic' = sn /\ snapRun' = sr
             /\ nic' = n2 /\ run' = r2
             /\ PostOK(AfterPower(kind), n2, r2, sn, sr)
             /\ UNCHANGED <<upDur, downDur>>
    ELSE /\ ~success
         /\ n2 = nic /\ r2 = run
         /\ UNCHANGED pvars

(* one tick *)
Tick(n2, r2) ==
    /\ st' = AfterTick
    /\ age' = IF AfterTick = st /\ st \in {"SD", "BOOT"} THEN age + 1 ELSE 0
    /\ resetting' = (resetting /\ AfterTick = "SD")
    /\ nic' = n2 /\ run' = r2
    /\ PostOK(AfterTick, n2, r2, snapNic, snapRun)
    /\ UNCHANGED <<upDur, downDur, snapNic, snapRun>>

(* any other request addressed to the node *)
ReqOther(success, n2, r2) ==
    IF st = "ON"
    THEN /\ nic' = n2 /\ run' = r2
         /\ UNCHANGED <<upDur, downDur, st, age, resetting, snapNic, snapRun>>
    ELSE /\ ~success
         /\ n2 = nic /\ r2 = run
         /\ UNCHANGED pvars

(* a peer sends traffic towards the node: `acc' frames were taken in by    *)
(* the node's interfaces, `emit' frames left the node                      *)
FrameIn(acc, emit, n2, r2) ==
    /\ st # "ON" => (acc = 0 /\ emit = 0)
    /\ st # "ON" => (n2 = nic /\ r2 = run)
    /\ nic' = n2 /\ run' = r2
    /\ UNCHANGED <<upDur, downDur, st, age, resetting, snapNic, snapRun>>

(* the node's own software tries to send *)
TryEmit(emit, n2, r2) ==
    /\ st # "ON" => emit = 0
    /\ st # "ON" => (n2 = nic /\ r2 = run)
    /\ nic' = n2 /\ run' = r2
    /\ UNCHANGED <<upDur, downDur, st, age, resetting, snapNic, snapRun>>

-----------------------------------------------------------------------------
InvNicsDownUnlessOn   == NicsDownUnlessOn(st, nic)
InvNothingRunsWhenOff == NothingRunsWhenOff(st, run)

\* only the documented transitions (two-hop composites only with a 0 duration)
Legal ==
    {<<"ON","SD">>, <<"SD","OFF">>, <<"OFF","BOOT">>, <<"BOOT","ON">>}
    \cup (IF downDur = 0 THEN {<<"ON","OFF">>, <<"ON","BOOT">>} ELSE {})
    \cup (IF upDur = 0 THEN {<<"OFF","ON">>, <<"SD","ON">>} ELSE {})
    \cup (IF upDur = 0 /\ downDur = 0 THEN {<<"ON","ON">>} ELSE {})
    \cup {<<"SD","BOOT">>}   \* reset: OFF is passed within the completing tick
OnlyLegalTransitions == [][st' # st => <<st, st'>> \in Legal]_pvars
\* a transitional state entered with duration d is left when d ticks were spent in it, not before
StaysForDuration ==
    [][ (st \in {"SD","BOOT"} /\ st' # st) => age = (IF st = "SD" THEN downDur ELSE upDur) ]_pvars
=============================================================================
